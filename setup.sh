#!/bin/bash
# Offline setup: nothing to fetch. Pre-builds nothing heavy; every check rebuilds from /repo.
set -e
cd "$(dirname "$0")"
mkdir -p build evidence replays
chmod +x check tools/*.py
command -v cargo-kani >/dev/null || cargo kani --version >/dev/null
python3 -c "import json; json.load(open('MANIFEST.json'))"
echo "setup ok"
