//! C23: an LSP position the server receives is mapped to the iso literal that contains it and to the byte offset
//! inside that literal (find_iso_literal_extraction_under_cursor: delta_line_delta_start over the text before and
//! inside the literal, position_in_range, get_index_of_line_char). For every UTF-8 document of <= N bytes, every
//! literal [a, b) on character boundaries and every position:
//!  * a position that designates an offset inside [a, b] yields that literal and the offset relative to a
//!    (plus one on the literal's first line: the historical convention of get_index_of_line_char that its callers rely on);
//!  * a position before a or after b yields None.
use isograph_lsp::verif_hooks::{LineChar, verif_find_under_cursor};

fn units(b: &[u8], from: usize, to: usize) -> u32 {
    let mut n = 0u32;
    let mut i = from;
    while i < to {
        let c = b[i];
        if c & 0xC0 != 0x80 {
            n += if c >= 0xF0 { 2 } else { 1 };
        }
        i += 1;
    }
    n
}

fn line_of(b: &[u8], offset: usize) -> (u32, usize) {
    let mut line = 0u32;
    let mut start = 0usize;
    let mut i = 0;
    while i < offset {
        if b[i] == b'\n' {
            line += 1;
            start = i + 1;
        }
        i += 1;
    }
    (line, start)
}

fn body<const N: usize>() {
    let mut buf = [0u8; N];
    buf = kani::any();
    let len: usize = kani::any();
    kani::assume(len <= N);
    let text = match std::str::from_utf8(&buf[..len]) {
        Ok(t) => t,
        Err(_) => {
            kani::assume(false);
            unreachable!()
        }
    };
    let b = text.as_bytes();
    let a: usize = kani::any();
    let e: usize = kani::any();
    let off: usize = kani::any();
    kani::assume(a <= e && e <= len && off <= len);
    kani::assume(text.is_char_boundary(a) && text.is_char_boundary(e) && text.is_char_boundary(off));
    let (line, start) = line_of(b, off);
    let character = units(b, start, off);
    let got = verif_find_under_cursor(text, a, e, LineChar { line, character });
    if off >= a && off <= e {
        let (la, _) = line_of(b, a);
        let expected = if e == a {
            0
        } else if line == la {
            (off - a) as u32 + 1
        } else {
            (off - a) as u32
        };
        assert!(got == Some(expected), "a position inside the literal maps to its byte offset in the literal");
    } else {
        assert!(got.is_none(), "a position outside the literal is not attributed to it");
    }
    kani::cover!(got.is_some() && line >= 1 && a >= 1 && b[0] >= 0x80, "non-ASCII text before the literal, position on a later line");
    kani::cover!(got.is_none() && off > e, "position after the literal");
}

#[kani::proof]
#[kani::unwind(5)]
fn c23_cursor_to_literal_offset_3() {
    body::<3>();
}

#[kani::proof]
#[kani::unwind(6)]
fn c23_cursor_to_literal_offset_4() {
    body::<4>();
}
