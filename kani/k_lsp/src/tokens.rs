//! C23: the pieces a semantic token is split into (one per line it touches) carry LSP lengths.
//! For every UTF-8 text of <= N bytes and every token span on character boundaries, the real
//! absolutize_relative_token must return, for each line piece of the token, the byte offset at which the piece
//! starts (consumed by delta_line_delta_start, which converts it to a UTF-16 column) and the piece's length in
//! UTF-16 code units (the unit of `length` in the LSP semantic token encoding).
use common_lang_types::Span;
use isograph_lsp::verif_hooks::verif_token_lines;

fn units(b: &[u8], from: usize, to: usize) -> u32 {
    let mut n = 0u32;
    let mut i = from;
    while i < to {
        let c = b[i];
        if c & 0xC0 != 0x80 {
            n += if c >= 0xF0 { 2 } else { 1 };
        }
        i += 1;
    }
    n
}

fn body<const N: usize>() {
    let (n, span, first) = body_with::<N>(false);
    kani::cover!(n == 2, "token spanning two lines");
    kani::cover!(n == 1 && span == 2 && first >= 0x80, "token consisting of one two-byte character");
}

/// `astral_first` restricts the text to start with a four-byte scalar (measured: not cheaper than the full 4-byte bound, unused).
fn body_with<const N: usize>(astral_first: bool) -> (usize, usize, u8) {
    let mut buf = [0u8; N];
    buf = kani::any();
    let len: usize = kani::any();
    kani::assume(len <= N);
    if astral_first {
        kani::assume(len >= 4 && buf[0] >= 0xF0);
    }
    let text = match std::str::from_utf8(&buf[..len]) {
        Ok(t) => t,
        Err(_) => {
            kani::assume(false);
            unreachable!()
        }
    };
    let b = text.as_bytes();
    let s: usize = kani::any();
    let e: usize = kani::any();
    kani::assume(s <= e && e <= len && text.is_char_boundary(s) && text.is_char_boundary(e));
    let pieces = verif_token_lines(text, 0, Span { start: s as u32, end: e as u32 });
    // oracle: the token text split after every '\n'
    let mut at = s;
    let mut k = 0usize;
    while at < e {
        let mut end = at;
        while end < e && b[end] != b'\n' {
            end += 1;
        }
        if end < e {
            end += 1; // the piece includes its line break
        }
        assert!(k < pieces.len(), "one piece per line the token touches");
        let (start, length) = pieces[k];
        assert!(start as usize == at, "piece starts at the byte offset of its first character");
        assert!(length == units(b, at, end), "piece length is measured in UTF-16 code units");
        at = end;
        k += 1;
    }
    assert!(k == pieces.len(), "no further pieces");
    let n = pieces.len();
    std::mem::forget(pieces);
    (n, e - s, if s < len { b[s] } else { 0 })
}

#[kani::proof]
#[kani::unwind(5)]
fn c23_token_pieces_utf16_3() {
    body::<3>();
}

#[kani::proof]
#[kani::unwind(6)]
fn c23_token_pieces_utf16_4() {
    body::<4>();
}
