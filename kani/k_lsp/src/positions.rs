//! C23: LSP position conversion kernels of isograph_lsp over every UTF-8 text of <= N bytes.
//! Oracle (LSP specification): line = number of '\n' before the offset, character = number of
//! UTF-16 code units between the start of that line and the offset.
use isograph_lsp::verif_hooks::{char_index_to_position, delta_line_delta_start, get_index_of_line_char, LineChar};

/// symbolic valid UTF-8 text of 0..=N bytes
fn any_text<const N: usize>(buf: &mut [u8; N]) -> &str {
    *buf = kani::any();
    let len: usize = kani::any();
    kani::assume(len <= N);
    match std::str::from_utf8(&buf[..len]) {
        Ok(t) => t,
        Err(_) => {
            kani::assume(false);
            unreachable!()
        }
    }
}

/// number of UTF-16 code units of the UTF-8 bytes b[from..to] (to/from on char boundaries)
fn utf16_units(b: &[u8], from: usize, to: usize) -> u32 {
    let mut n = 0u32;
    let mut i = from;
    while i < to {
        let c = b[i];
        if c & 0xC0 != 0x80 {
            // leading byte: 1 unit, or 2 for a 4-byte sequence (astral scalar)
            n += if c >= 0xF0 { 2 } else { 1 };
        }
        i += 1;
    }
    n
}

/// (lines before offset, byte index of the start of the line containing offset)
fn line_of(b: &[u8], offset: usize) -> (u32, usize) {
    let mut line = 0u32;
    let mut start = 0usize;
    let mut i = 0;
    while i < offset {
        if b[i] == b'\n' {
            line += 1;
            start = i + 1;
        }
        i += 1;
    }
    (line, start)
}

fn delta_body<const N: usize>() {
    let mut buf = [0u8; N];
    let text = any_text::<N>(&mut buf);
    let b = text.as_bytes();
    let (dl, ds) = delta_line_delta_start(text);
    let (line, start) = line_of(b, b.len());
    assert!(dl == line, "delta_line = number of line breaks in the text");
    assert!(ds == utf16_units(b, start, b.len()), "delta_start = UTF-16 units after the last line break");
    kani::cover!(dl == 1 && ds == 1);
    kani::cover!(b.len() == N);
}

#[kani::proof]
#[kani::unwind(6)]
fn c23_delta_utf16_4() {
    delta_body::<4>();
}

#[kani::proof]
#[kani::unwind(8)]
fn c23_delta_utf16_6() {
    delta_body::<6>();
}

fn char_index_body<const N: usize>(ascii_only: bool) {
    let mut buf = [0u8; N];
    let text = any_text::<N>(&mut buf);
    let b = text.as_bytes();
    if ascii_only {
        kani::assume(text.is_ascii());
    }
    let idx: usize = kani::any();
    kani::assume(idx <= b.len() && text.is_char_boundary(idx));
    let p = char_index_to_position(text, idx);
    let (line, start) = line_of(b, idx);
    assert!(p.line == line, "line = number of line breaks before the offset");
    assert!(p.character == utf16_units(b, start, idx), "character = UTF-16 units since the line start");
    kani::cover!(p.line == 1 && idx == b.len() && idx == N);
}

#[kani::proof]
#[kani::unwind(6)]
fn c23_char_index_utf16_4() {
    char_index_body::<4>(false);
}

#[kani::proof]
#[kani::unwind(8)]
fn c23_char_index_utf16_6() {
    char_index_body::<6>(false);
}


/// byte index of the position `units` UTF-16 code units after byte index `from`
/// (stops at a line break or the end of the text)
fn advance_utf16(b: &[u8], from: usize, units: u32) -> usize {
    let mut i = from;
    let mut n = 0u32;
    while i < b.len() && n < units && b[i] != b'\n' {
        let c = b[i];
        if c & 0xC0 != 0x80 {
            n += if c >= 0xF0 { 2 } else { 1 };
        }
        i += 1;
        // skip continuation bytes
        while i < b.len() && b[i] & 0xC0 == 0x80 {
            i += 1;
        }
    }
    i
}

/// For a position (line >= 1, character) that designates a character boundary inside the
/// text, the returned index is the byte offset of that position.
fn index_of_line_char_body<const N: usize>(ascii_only: bool) {
    let mut buf = [0u8; N];
    let text = any_text::<N>(&mut buf);
    let b = text.as_bytes();
    if ascii_only {
        kani::assume(text.is_ascii());
    }
    // choose the target as a byte offset on a char boundary, derive its LSP position
    let off: usize = kani::any();
    kani::assume(off <= b.len() && text.is_char_boundary(off));
    let (line, start) = line_of(b, off);
    kani::assume(line >= 1);
    let character = utf16_units(b, start, off);
    let got = get_index_of_line_char(text, LineChar { line, character });
    assert!(got as usize == off, "index of (line, UTF-16 character) is the byte offset of that position");
    kani::cover!(line == 2 && character == 1);
    kani::cover!(off == b.len() && off == N);
    kani::cover!(character >= 1 && b[start] >= 0x80, "non-ASCII character before the position on its line");
}

#[kani::proof]
#[kani::unwind(6)]
fn c23_index_of_line_char_utf16_4() {
    index_of_line_char_body::<4>(false);
}

#[kani::proof]
#[kani::unwind(8)]
fn c23_index_of_line_char_utf16_6() {
    index_of_line_char_body::<6>(false);
}

/// Line 0: the function must not panic (arithmetic underflow) for a position on the first line.
#[kani::proof]
#[kani::unwind(6)]
fn c23_index_of_line_char_first_line_total() {
    let mut buf = [0u8; 4];
    let text = any_text::<4>(&mut buf);
    let b = text.as_bytes();
    let off: usize = kani::any();
    kani::assume(off <= b.len() && text.is_char_boundary(off));
    let (line, start) = line_of(b, off);
    kani::assume(line == 0);
    let character = utf16_units(b, start, off);
    let got = get_index_of_line_char(text, LineChar { line, character });
    assert!(got as usize <= b.len() + 1);
    kani::cover!(b.len() > 0 && b[0] == b'\n', "text starts with a line break");
}
