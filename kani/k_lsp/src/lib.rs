#![allow(unused)]
#[cfg(kani)]
mod positions;
#[cfg(kani)]
mod tokens;
#[cfg(kani)]
mod cursor;
