#![allow(unused)]
#[cfg(kani)]
mod positions;
