//! C31: diagnostic excerpts. Real `text_with_carats` over every UTF-8 text of <= N bytes, every
//! non-empty in-range span on character boundaries and outer offsets 0..=2.
//! `alloc::fmt::format` is stubbed (the rendered text is not examined: caret placement is
//! outside the claim); what is decided: no panic, and the reported (row, col).
use common_lang_types::{text_with_carats, Span};

pub fn stub_format(_args: std::fmt::Arguments<'_>) -> String {
    String::new()
}

fn oracle_row_col(text: &[u8], start: usize) -> (u32, u32) {
    let mut row = 1u32;
    let mut line_start = 0usize;
    let mut i = 0;
    while i < start {
        if text[i] == b'\n' {
            row += 1;
            line_start = i + 1;
        }
        i += 1;
    }
    (row, (start - line_start) as u32 + 1)
}

fn body<const N: usize>() {
    let buf: [u8; N] = kani::any();
    let len: usize = kani::any();
    kani::assume(len >= 1 && len <= N);
    let text = match std::str::from_utf8(&buf[..len]) {
        Ok(t) => t,
        Err(_) => {
            kani::assume(false);
            unreachable!()
        }
    };
    let o: u32 = kani::any();
    let has_outer: bool = kani::any();
    kani::assume(o <= 2);
    let off = if has_outer { o } else { 0 };
    let s: u32 = kani::any();
    let e: u32 = kani::any();
    kani::assume(s < e);
    let (a, b) = ((off + s) as usize, (off + e) as usize);
    kani::assume(b <= len);
    kani::assume(text.is_char_boundary(a) && text.is_char_boundary(b));
    let outer = if has_outer { Some(Span::new(o, len as u32)) } else { None };
    let (_rendered, row_col) = text_with_carats(text, outer, Span::new(s, e), false);
    let (row, col) = oracle_row_col(&buf, a);
    match row_col {
        Some((r, c)) => {
            assert!(r.0.get() == row, "reported row is the line on which the span starts");
            assert!(c.0.get() == col, "reported column is the span start's offset in that line");
        }
        None => panic!("no (row, col) reported for a non-empty in-range span"),
    }
    kani::cover!(row == 2 && col == 1, "span starts at the beginning of the second line");
    kani::cover!(len == N && buf[0] >= 0x80, "text starts with a multi-byte character");
    kani::cover!(has_outer && o == 2 && row == 1);
    kani::cover!(buf[a] == b'\n', "span starts on a line break");
}

#[kani::proof]
#[kani::unwind(6)]
#[kani::stub(alloc::fmt::format, stub_format)]
fn c31_row_col_3() {
    body::<3>();
}

#[kani::proof]
#[kani::unwind(7)]
#[kani::stub(alloc::fmt::format, stub_format)]
fn c31_row_col_4() {
    body::<4>();
}

#[kani::proof]
#[kani::unwind(9)]
#[kani::stub(alloc::fmt::format, stub_format)]
fn c31_row_col_6() {
    body::<6>();
}
