#![allow(unused)]
#[cfg(kani)]
mod carats;
