//! C32: the real `#[derive(ResolvePosition)]` expansions of the iso-literal AST. The harness
//! builds one client-field declaration by hand (fixed names, every span a symbolic u32 under
//! the parser's nesting invariant) and a symbolic cursor; the returned node must be the
//! innermost node whose span contains the cursor, and its parent chain must be the chain of
//! enclosing nodes.
use common_lang_types::{EmbeddedLocation, Span, TextSource, WithEmbeddedLocation, WithGenericLocation};
use intern::string_key::StringKey;
use isograph_lang_types::*;
use resolve_position::ResolvePosition;

/// Names are never looked at by position resolution: every name is the pre-allocated EMPTY string
/// (index 0), built without going through the intern tables (interning five names made CBMC run
/// out of 16 GB).
fn nm<T: From<StringKey>>() -> T {
    T::from(unsafe { StringKey::from_index(0) })
}

fn loc(ts: TextSource, s: Span) -> EmbeddedLocation {
    EmbeddedLocation { text_source: ts, span: s }
}
fn wl<T>(item: T, ts: TextSource, s: Span) -> WithEmbeddedLocation<T> {
    WithGenericLocation { item, location: loc(ts, s) }
}

/// a symbolic span [start, end] with start <= end <= 1000
fn any_span() -> Span {
    let s: u32 = kani::any();
    let e: u32 = kani::any();
    kani::assume(s <= e && e <= 1000);
    Span { start: s, end: e }
}
fn inside(child: Span, parent: Span) -> bool {
    parent.start <= child.start && child.end <= parent.end
}
/// strictly separated (no shared boundary: Span::contains is inclusive at both ends)
fn apart(a: Span, b: Span) -> bool {
    a.end < b.start || b.end < a.start
}
fn has(s: Span, p: u32) -> bool {
    s.start <= p && p <= s.end
}

fn scalar(ts: TextSource, name_span: Span) -> ScalarSelection {
    ScalarSelection {
        name: wl(nm(), ts, name_span),
        reader_alias: None,
        arguments: vec![],
        scalar_selection_directive_set: ScalarSelectionDirectiveSet::None(EmptyDirectiveSet {}),
    }
}

#[derive(PartialEq, Clone, Copy)]
enum Want {
    Decl,
    ParentType,
    FieldName,
    Description,
    OuterSet,
    ScalarA,
    ObjectB,
    InnerSet,
    ScalarD,
    VarDecl,
    VarName,
    VarType,
}

#[kani::proof]
#[kani::unwind(3)]
fn c32_client_field_declaration() {
    let ts = TextSource { relative_path_to_source_file: nm(), span: None };
    // spans of the five top-level parts, pairwise strictly separated
    let (p, n, dsc, ss, v) = (any_span(), any_span(), any_span(), any_span(), any_span());
    let has_desc: bool = kani::any();
    kani::assume(apart(p, n) && apart(p, ss) && apart(p, v) && apart(n, ss) && apart(n, v) && apart(ss, v));
    kani::assume(!has_desc || (apart(dsc, p) && apart(dsc, n) && apart(dsc, ss) && apart(dsc, v)));
    // selection set children
    let (a, bo, c, d) = (any_span(), any_span(), any_span(), any_span());
    kani::assume(inside(a, ss) && inside(bo, ss) && apart(a, bo) && inside(c, bo) && inside(d, c));
    // variable declaration children
    let (vn, vt) = (any_span(), any_span());
    kani::assume(inside(vn, v) && inside(vt, v) && apart(vn, vt));

    let inner_set = SelectionSet { selections: vec![wl(SelectionType::Scalar(scalar(ts, d)), ts, d)] };
    let object_b = ObjectSelection {
        name: wl(nm(), ts, Span { start: bo.start, end: bo.start }),
        reader_alias: None,
        selection_set: wl(inner_set, ts, c),
        arguments: vec![],
        object_selection_directive_set: ObjectSelectionDirectiveSet::None(EmptyDirectiveSet {}),
    };
    let outer_set = SelectionSet {
        selections: vec![
            wl(SelectionType::Scalar(scalar(ts, a)), ts, a),
            wl(SelectionType::Object(object_b), ts, bo),
        ],
    };
    let var = VariableDeclarationInner {
        name: wl(VariableNameWrapper(nm()), ts, vn),
        type_: wl(TypeAnnotationDeclaration::Scalar(EntityNameWrapper(nm())), ts, vt),
        default_value: None,
    };
    let decl = ClientFieldDeclaration {
        const_export_name: nm(),
        parent_type: wl(EntityNameWrapper(nm()), ts, p),
        client_field_name: wl(ClientScalarSelectableNameWrapper(nm()), ts, n),
        description: if has_desc { Some(wl(Description(nm()), ts, dsc)) } else { None },
        selection_set: wl(outer_set, ts, ss),
        directive_set: wl(vec![], ts, Span { start: 0, end: 0 }),
        variable_definitions: vec![wl(var, ts, v)],
        definition_path: nm(),
        semantic_tokens: vec![],
    };

    let pos: u32 = kani::any();
    kani::assume(pos <= 1000);
    let want = if has(p, pos) {
        Want::ParentType
    } else if has(n, pos) {
        Want::FieldName
    } else if has_desc && has(dsc, pos) {
        Want::Description
    } else if has(ss, pos) {
        if has(a, pos) {
            Want::ScalarA
        } else if has(bo, pos) {
            if has(c, pos) {
                if has(d, pos) { Want::ScalarD } else { Want::InnerSet }
            } else {
                Want::ObjectB
            }
        } else {
            Want::OuterSet
        }
    } else if has(v, pos) {
        if has(vn, pos) {
            Want::VarName
        } else if has(vt, pos) {
            Want::VarType
        } else {
            Want::VarDecl
        }
    } else {
        Want::Decl
    };

    let got = decl.resolve((), Span { start: pos, end: pos });
    let sel_a = match &decl.selection_set.item.selections[0].item {
        SelectionType::Scalar(s) => s,
        _ => unreachable!(),
    };
    let obj_b = match &decl.selection_set.item.selections[1].item {
        SelectionType::Object(o) => o,
        _ => unreachable!(),
    };
    let sel_d = match &obj_b.selection_set.item.selections[0].item {
        SelectionType::Scalar(s) => s,
        _ => unreachable!(),
    };
    match got {
        IsographResolvedNode::ClientFieldDeclaration(path) => {
            assert!(want == Want::Decl);
            assert!(std::ptr::eq(path.inner, &decl));
        }
        IsographResolvedNode::EntityNameWrapper(path) => {
            assert!(want == Want::ParentType);
            assert!(std::ptr::eq(path.inner, &decl.parent_type.item));
            assert!(matches!(path.parent, EntityNameWrapperParent::ClientFieldDeclaration(_)));
        }
        IsographResolvedNode::ClientScalarSelectableNameWrapper(path) => {
            assert!(want == Want::FieldName);
            assert!(std::ptr::eq(path.inner, &decl.client_field_name.item));
        }
        IsographResolvedNode::Description(_) => assert!(want == Want::Description),
        IsographResolvedNode::SelectionSet(path) => {
            assert!(want == Want::OuterSet || want == Want::InnerSet);
            if want == Want::OuterSet {
                assert!(std::ptr::eq(path.inner, &decl.selection_set.item));
                assert!(matches!(path.parent, SelectionSetParentType::ClientFieldDeclaration(_)));
            } else {
                assert!(std::ptr::eq(path.inner, &obj_b.selection_set.item));
                match path.parent {
                    SelectionSetParentType::ObjectSelection(op) => assert!(std::ptr::eq(op.inner, obj_b)),
                    _ => panic!("inner selection set must hang off the object selection"),
                }
            }
        }
        IsographResolvedNode::ScalarSelection(path) => {
            assert!(want == Want::ScalarA || want == Want::ScalarD);
            let SelectionParentType::SelectionSet(set_path) = path.parent;
            if want == Want::ScalarA {
                assert!(std::ptr::eq(path.inner, sel_a));
                assert!(std::ptr::eq(set_path.inner, &decl.selection_set.item));
            } else {
                assert!(std::ptr::eq(path.inner, sel_d));
                assert!(std::ptr::eq(set_path.inner, &obj_b.selection_set.item), "parent of the nested selection is the inner selection set");
            }
        }
        IsographResolvedNode::ObjectSelection(path) => {
            assert!(want == Want::ObjectB);
            assert!(std::ptr::eq(path.inner, obj_b));
        }
        IsographResolvedNode::VariableDeclarationInner(path) => {
            assert!(want == Want::VarDecl);
            assert!(std::ptr::eq(path.inner, &decl.variable_definitions[0].item));
        }
        IsographResolvedNode::VariableNameWrapper(_) => assert!(want == Want::VarName),
        IsographResolvedNode::TypeAnnotation(path) => {
            assert!(want == Want::VarType);
            assert!(matches!(path.parent, TypeAnnotationDeclarationParentType::VariableDeclarationInner(_)));
        }
        _ => panic!("unexpected node kind for a client field declaration"),
    }
    kani::cover!(want == Want::ScalarD, "cursor on the nested selection");
    kani::cover!(want == Want::InnerSet, "cursor in the inner selection set, outside its selection");
    kani::cover!(want == Want::VarType);
    kani::cover!(want == Want::Description);
    kani::cover!(want == Want::Decl);
    std::mem::forget(decl);
}

/// Client pointer declaration: parent type, pointer name, target type, optional description,
/// a flat selection set with two scalar selections, no variables. All spans symbolic.
#[kani::proof]
#[kani::unwind(3)]
fn c32_client_pointer_declaration() {
    let ts = TextSource { relative_path_to_source_file: nm(), span: None };
    let (p, n, tt, dsc, ss) = (any_span(), any_span(), any_span(), any_span(), any_span());
    let has_desc: bool = kani::any();
    kani::assume(apart(p, n) && apart(p, tt) && apart(p, ss) && apart(n, tt) && apart(n, ss) && apart(tt, ss));
    kani::assume(!has_desc || (apart(dsc, p) && apart(dsc, n) && apart(dsc, tt) && apart(dsc, ss)));
    let (a, b) = (any_span(), any_span());
    kani::assume(inside(a, ss) && inside(b, ss) && apart(a, b));
    let set = SelectionSet {
        selections: vec![
            wl(SelectionType::Scalar(scalar(ts, a)), ts, a),
            wl(SelectionType::Scalar(scalar(ts, b)), ts, b),
        ],
    };
    let decl = ClientPointerDeclaration {
        const_export_name: nm(),
        parent_type: wl(EntityNameWrapper(nm()), ts, p),
        client_pointer_name: wl(ClientObjectSelectableNameWrapper(nm()), ts, n),
        target_type: wl(TypeAnnotationDeclaration::Scalar(EntityNameWrapper(nm())), ts, tt),
        directives: wl(vec![], ts, Span { start: 0, end: 0 }),
        description: if has_desc { Some(wl(Description(nm()), ts, dsc)) } else { None },
        selection_set: wl(set, ts, ss),
        variable_definitions: vec![],
        definition_path: nm(),
        semantic_tokens: vec![],
    };
    let pos: u32 = kani::any();
    kani::assume(pos <= 1000);
    let got = decl.resolve((), Span { start: pos, end: pos });
    // 0 decl, 1 parent type, 2 name, 3 target type, 4 description, 5 selection set, 6 first selection, 7 second selection
    let want = if has(p, pos) {
        1
    } else if has(n, pos) {
        2
    } else if has(tt, pos) {
        3
    } else if has_desc && has(dsc, pos) {
        4
    } else if has(ss, pos) {
        if has(a, pos) { 6 } else if has(b, pos) { 7 } else { 5 }
    } else {
        0
    };
    let sel = |i: usize| match &decl.selection_set.item.selections[i].item {
        SelectionType::Scalar(s) => s as *const ScalarSelection,
        _ => unreachable!(),
    };
    match got {
        IsographResolvedNode::ClientPointerDeclaration(path) => assert!(want == 0 && std::ptr::eq(path.inner, &decl)),
        IsographResolvedNode::EntityNameWrapper(path) => {
            assert!(want == 1);
            assert!(matches!(path.parent, EntityNameWrapperParent::ClientPointerDeclaration(_)));
        }
        IsographResolvedNode::ClientObjectSelectableNameWrapper(path) => {
            assert!(want == 2 && std::ptr::eq(path.inner, &decl.client_pointer_name.item))
        }
        IsographResolvedNode::TypeAnnotation(path) => {
            assert!(want == 3);
            assert!(matches!(path.parent, TypeAnnotationDeclarationParentType::ClientPointerDeclaration(_)));
        }
        IsographResolvedNode::Description(path) => {
            assert!(want == 4);
            assert!(matches!(path.parent, DescriptionParent::ClientPointerDeclaration(_)));
        }
        IsographResolvedNode::SelectionSet(path) => {
            assert!(want == 5);
            assert!(matches!(path.parent, SelectionSetParentType::ClientPointerDeclaration(_)));
        }
        IsographResolvedNode::ScalarSelection(path) => {
            assert!(want == 6 || want == 7);
            assert!(std::ptr::eq(path.inner as *const ScalarSelection, sel(if want == 6 { 0 } else { 1 })), "the selection under the cursor, not its sibling");
        }
        _ => panic!("unexpected node kind for a client pointer declaration"),
    }
    kani::cover!(want == 7, "cursor on the second selection");
    kani::cover!(want == 3);
    kani::cover!(want == 4);
    kani::cover!(want == 0);
    std::mem::forget(decl);
}

/// Entrypoint declaration: parent type and field name only.
#[kani::proof]
#[kani::unwind(3)]
fn c32_entrypoint_declaration() {
    let ts = TextSource { relative_path_to_source_file: nm(), span: None };
    let (p, n) = (any_span(), any_span());
    kani::assume(apart(p, n));
    let decl = EntrypointDeclaration {
        parent_type: wl(EntityNameWrapper(nm()), ts, p),
        client_field_name: wl(ClientScalarSelectableNameWrapper(nm()), ts, n),
        entrypoint_keyword: wl((), ts, Span { start: 0, end: 0 }),
        dot: wl((), ts, Span { start: 0, end: 0 }),
        iso_literal_text: nm(),
        directive_set: wl(vec![], ts, Span { start: 0, end: 0 }),
        semantic_tokens: vec![],
    };
    let pos: u32 = kani::any();
    kani::assume(pos <= 1000);
    match decl.resolve((), Span { start: pos, end: pos }) {
        IsographResolvedNode::EntrypointDeclaration(path) => assert!(!has(p, pos) && !has(n, pos) && std::ptr::eq(path.inner, &decl)),
        IsographResolvedNode::EntityNameWrapper(path) => {
            assert!(has(p, pos));
            assert!(matches!(path.parent, EntityNameWrapperParent::EntrypointDeclaration(_)));
        }
        IsographResolvedNode::ClientScalarSelectableNameWrapper(_) => assert!(has(n, pos) && !has(p, pos)),
        _ => panic!("unexpected node kind for an entrypoint declaration"),
    }
    kani::cover!(has(n, pos));
    kani::cover!(!has(p, pos) && !has(n, pos));
    std::mem::forget(decl);
}
