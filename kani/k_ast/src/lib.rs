#![allow(unused)]
#[cfg(kani)]
mod resolve;
