//! C06(c): schedules. Thread A performs one `add_get`; at every scheduling point of A (each
//! atomic operation of atomic_arena.rs and each lock acquisition) a symbolic boolean decides
//! whether thread B now runs one complete operation (add_get, or a reader), and - in the 3-thread
//! harnesses - whether a third thread C runs a complete add_get inside a window of B.
//! An operation that would have to wait for a lock held by the preempted thread prunes the
//! schedule (it cannot run to completion inside that window; its later start is another schedule).
use intern::verif_hooks::sync as isync;
use intern::verif_hooks::{AtomicArena, Ref};

#[derive(PartialEq, Eq, PartialOrd, Ord, Hash)]
pub struct Cnt {
    /// low two bits = owner id (0 = A, 1 = B, 2 = C, 3 = prefill); a 2-byte element keeps the
    /// symbolic-offset bucket writes small enough for CBMC (a 16-byte element exhausted 12 GB)
    pub val: u16,
}
impl Cnt {
    fn id(&self) -> usize {
        (self.val & 3) as usize
    }
}
static mut DROPS: [u32; 4] = [0; 4];
impl Drop for Cnt {
    fn drop(&mut self) {
        unsafe { DROPS[self.id()] += 1 }
    }
}

#[derive(Clone, Copy, PartialEq)]
enum BKind {
    Add,
    ReadEarlier,
}

struct Sched {
    active: bool,
    depth: u32,
    threads: u32,
    arena: *const AtomicArena<'static, Cnt>,
    b_kind: BKind,
    b_done: bool,
    b_val: u16,
    b_ref: Option<Ref<'static, Cnt>>,
    b_site: u32,
    c_done: bool,
    c_val: u16,
    c_ref: Option<Ref<'static, Cnt>>,
    // reader state
    r0: Option<Ref<'static, Cnt>>,
    r0_val: u16,
    len_seen_min: usize,
    len_seen_max: usize,
    base_len: usize,
}
static mut S: Sched = Sched {
    active: false,
    depth: 0,
    threads: 2,
    arena: std::ptr::null(),
    b_kind: BKind::Add,
    b_done: false,
    b_val: 0,
    b_ref: None,
    b_site: 0,
    c_done: false,
    c_val: 0,
    c_ref: None,
    r0: None,
    r0_val: 0,
    len_seen_min: usize::MAX,
    len_seen_max: 0,
    base_len: 0,
};

fn run_b() {
    unsafe {
        let arena = &*S.arena;
        match S.b_kind {
            BKind::Add => {
                let (r, e) = arena.add_get(Cnt { val: S.b_val });
                assert!(e.val == S.b_val, "B's add_get returns a reference to B's element");
                S.b_ref = Some(r);
            }
            BKind::ReadEarlier => {
                // a reader thread: an earlier, completed add must read back at any time
                let l = arena.len();
                assert!(l >= S.base_len, "len never decreases");
                if l < S.len_seen_min {
                    S.len_seen_min = l;
                }
                if l > S.len_seen_max {
                    S.len_seen_max = l;
                }
                assert!(arena.get(S.r0.unwrap()).val == S.r0_val, "earlier add reads back during a concurrent add");
            }
        }
        S.b_done = true;
    }
}

fn run_c() {
    unsafe {
        let arena = &*S.arena;
        let (r, e) = arena.add_get(Cnt { val: S.c_val });
        assert!(e.val == S.c_val);
        S.c_ref = Some(r);
        S.c_done = true;
    }
}

fn hook(site: u32) {
    unsafe {
        if !S.active {
            return;
        }
        if S.depth == 0 && !S.b_done {
            if kani::any::<bool>() {
                S.depth = 1;
                S.b_site = site;
                run_b();
                S.depth = 0;
            }
        } else if S.depth == 1 && S.threads >= 3 && !S.c_done {
            if kani::any::<bool>() {
                S.depth = 2;
                run_c();
                S.depth = 1;
            }
        }
    }
}

fn blocked() {
    // the nested operation would wait for a lock held by a preempted thread
    kani::assume(false);
}

fn install() {
    unsafe {
        isync::YIELD_HOOK = Some(hook);
        parking_lot::verif::YIELD_HOOK = Some(hook);
        parking_lot::verif::BLOCKED_HOOK = Some(blocked);
    }
}

/// Two (or three) adders. `prefill` concrete elements are added first (single-threaded).
/// Returns (B ran inside a window of A, A's index, B's index, C's index or 0).
fn adders(prefill: u16, threads: u32, check_drop: bool) -> (bool, u32, u32, u32) {
    let a: u16 = kani::any();
    let b: u16 = kani::any();
    let c: u16 = kani::any();
    kani::assume(a & 3 == 0 && b & 3 == 1 && c & 3 == 2);
    let obs;
    {
        let arena: AtomicArena<'static, Cnt> = AtomicArena::new();
        let mut i = 0;
        while i < prefill {
            arena.add(Cnt { val: (i << 2) | 3 });
            i += 1;
        }
        unsafe {
            S.arena = &arena;
            S.threads = threads;
            S.b_kind = BKind::Add;
            S.b_val = b;
            S.c_val = c;
            S.base_len = prefill as usize;
        }
        install();
        unsafe { S.active = true };
        let (ra, ea) = arena.add_get(Cnt { val: a });
        let ea_val = ea.val;
        unsafe { S.active = false };
        assert!(ea_val == a, "A's add_get returns a reference to A's element");
        let preempted = unsafe { S.b_done };
        // threads that did not run inside a window of A run afterwards (the remaining schedules)
        unsafe {
            if !S.b_done {
                run_b();
            }
            if threads >= 3 && !S.c_done {
                run_c();
            }
        }
        let rb = unsafe { S.b_ref.unwrap() };
        assert!(ra != rb, "no slot handed out twice");
        assert!(arena.get(ra).val == a && arena.get(ra).id() == 0, "A's ref reads back A's element");
        assert!(arena.get(rb).val == b && arena.get(rb).id() == 1, "B's ref reads back B's element");
        if threads >= 3 {
            let rc = unsafe { S.c_ref.unwrap() };
            assert!(rc != ra && rc != rb);
            assert!(arena.get(rc).val == c && arena.get(rc).id() == 2);
        }
        assert!(arena.len() == prefill as usize + threads as usize, "len == completed additions");
        let lo = prefill as u32;
        assert!(ra.index() >= lo && ra.index() < lo + threads && rb.index() >= lo && rb.index() < lo + threads);
        obs = (preempted, ra.index(), rb.index(), if threads >= 3 { unsafe { S.c_ref.unwrap().index() } } else { 0 });
        unsafe {
            assert!(DROPS[0] == 0 && DROPS[1] == 0 && DROPS[2] == 0, "nothing dropped while the arena lives");
        }
        if !check_drop {
            // Dropping an arena whose bucket pointers are schedule-dependent costs CBMC ~9 GB;
            // the drop count is asserted by the dedicated *_drop harness only.
            std::mem::forget(arena);
            return obs;
        }
    }
    unsafe {
        assert!(DROPS[0] == 1 && DROPS[1] == 1, "each added element dropped exactly once");
        assert!(DROPS[2] == if threads >= 3 { 1 } else { 0 });
        assert!(DROPS[3] == prefill as u32);
    }
    obs
}

/// Both adds race for the allocation of the first bucket (empty arena).
#[kani::proof]
#[kani::unwind(27)]
fn c06_sched_two_adders_empty() {
    let (pre, ia, ib, _) = adders(0, 2, false);
    let site = unsafe { S.b_site };
    kani::cover!(pre && site == isync::SITE_PTR_LOAD, "B ran between A's fetch_add and A's bucket load");
    kani::cover!(pre && site == parking_lot::verif::SITE_MUTEX_LOCK, "B ran while A was about to take the bucket lock (both saw a null bucket)");
    kani::cover!(pre && ia > ib, "B overtook A");
    kani::cover!(!pre, "sequential order");
}

/// Same schedules, and afterwards the arena is dropped: every element dropped exactly once.
#[kani::proof]
#[kani::unwind(27)]
fn c06_sched_two_adders_drop() {
    let (pre, ia, ib, _) = adders(0, 2, true);
    kani::cover!(pre && ia > ib, "B overtook A, then drop");
    kani::cover!(!pre, "sequential order, then drop");
}

/// 127 elements present: A and B straddle the first bucket boundary (one allocates bucket 23).
#[kani::proof]
#[kani::unwind(130)]
fn c06_sched_two_adders_boundary() {
    let (pre, ia, ib, _) = adders(127, 2, false);
    kani::cover!(pre && ia == 128 && ib == 127, "B took the last slot of bucket 24, A allocates bucket 23");
    kani::cover!(pre && ia == 127 && ib == 128, "B allocates bucket 23 inside A's window");
    kani::cover!(!pre);
}

/// 128 present: both adds race for the allocation of the *second* bucket.
#[kani::proof]
#[kani::unwind(131)]
fn c06_sched_two_adders_second_bucket() {
    let (pre, ia, ib, _) = adders(128, 2, false);
    let site = unsafe { S.b_site };
    kani::cover!(pre && site == parking_lot::verif::SITE_MUTEX_LOCK && ia == 128, "both adds saw bucket 23 null; B allocated it first");
    kani::cover!(pre && ia == 129, "B overtook A");
}

/// A reader thread runs at every scheduling point of a concurrent add: an earlier add reads
/// back its element and len is monotone.
#[kani::proof]
#[kani::unwind(27)]
fn c06_sched_reader_during_add() {
    let a: u16 = kani::any();
    let z: u16 = kani::any();
    kani::assume(a & 3 == 0 && z & 3 == 3);
    let arena: AtomicArena<'static, Cnt> = AtomicArena::new();
    let r0 = arena.add(Cnt { val: z });
    unsafe {
        S.arena = &arena;
        S.threads = 2;
        S.b_kind = BKind::ReadEarlier;
        S.r0 = Some(r0);
        S.r0_val = z;
        S.base_len = 1;
    }
    install();
    unsafe { S.active = true };
    let (ra, _) = arena.add_get(Cnt { val: a });
    unsafe { S.active = false };
    assert!(arena.get(ra).val == a && arena.get(r0).val == z);
    assert!(arena.len() == 2);
    std::mem::forget(arena);
    unsafe {
        if S.b_done {
            assert!(S.len_seen_max <= 2);
        }
        kani::cover!(S.b_done && S.len_seen_max == 1, "reader ran before A's fetch_add");
        kani::cover!(S.b_done && S.len_seen_max == 2, "reader ran after A's fetch_add, before A finished");
    }
}
