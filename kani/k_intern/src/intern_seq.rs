//! C05: interning is a faithful bijection (sequential part) - real intern.rs / sharded_set.rs /
//! small_bytes.rs / string.rs over the hashbrown / parking_lot / once_cell stand-ins.
use intern::intern_struct;
use intern::string::{intern_bytes, BytesId, StringId};
use intern::verif_hooks::SmallBytes;
use intern::InternId;
use std::hash::{Hash, Hasher};

#[derive(Debug, PartialEq, Eq, Hash, Clone, Copy)]
pub struct K(pub u8);
intern_struct! {
    pub struct KId = Intern<K> {}
}

/// Value domain of the interning harnesses: the solver chooses, per intern call, one of these
/// concrete candidates (a symbolic selector), and the call is made inside the selector's branch so
/// that the FNV hash and the shard index stay concrete. (With a fully symbolic value the shard
/// index `hash >> 51 & 63` is a symbolic index into 64 lock-protected tables and CBMC's symbolic
/// execution did not finish in 7 minutes.) All single-byte values land in shard 44.
const KV: [u8; 3] = [3, 7, 200];
fn intern_k(sel: u8) -> KId {
    match sel {
        0 => KId::intern(K(KV[0])),
        1 => KId::intern(K(KV[1])),
        _ => KId::intern(K(KV[2])),
    }
}
fn sel3() -> u8 {
    let s: u8 = kani::any();
    kani::assume(s < 3);
    s
}

/// Three interned values chosen by the solver (instantiation: Intern<K(u8)>):
/// same id iff equal value, lookup returns the value, ids are dense stable indices.
#[kani::proof]
#[kani::unwind(8)]
fn c05_intern_struct_bijection() {
    let (a, b, c) = (sel3(), sel3(), sel3());
    assert!(KId::get_interned(&K(KV[0])).is_none(), "nothing is interned before the first intern");
    let ia = intern_k(a);
    assert!(ia.index() == 0);
    let ib = intern_k(b);
    let ic = intern_k(c);
    assert!((ia == ib) == (a == b));
    assert!((ia == ic) == (a == c));
    assert!((ib == ic) == (b == c));
    assert!(ia.get().0 == KV[a as usize] && ib.get().0 == KV[b as usize] && ic.get().0 == KV[c as usize], "lookup returns the interned value");
    // dense: a new id is the next index, an existing value does not consume an index
    let distinct = 1 + (b != a) as u32 + (c != a && c != b) as u32;
    assert!(KId::table().len() as u32 == distinct);
    assert!(ib.index() == if b == a { 0 } else { 1 });
    assert!(ic.index() == if c == a { 0 } else if c == b { ib.index() } else { distinct - 1 });
    // re-interning is stable; from_index_checked is the inverse of index
    assert!(intern_k(a) == ia && intern_k(c) == ic);
    assert!(KId::table().len() as u32 == distinct);
    assert!(KId::from_index_checked(ic.index()) == Some(ic));
    assert!(KId::from_index_checked(distinct).is_none());
    kani::cover!(a == b && b != c, "two equal, one different");
    kani::cover!(a != b && b != c && a != c, "all different");
    kani::cover!(a == b && b == c, "all equal");
}

/// A Hasher that records the exact byte sequence written to it (no arithmetic for the solver).
struct Rec {
    buf: [u8; 40],
    n: usize,
}
impl Hasher for Rec {
    fn finish(&self) -> u64 {
        self.n as u64
    }
    fn write(&mut self, bytes: &[u8]) {
        let mut i = 0;
        while i < bytes.len() {
            if self.n < 40 {
                self.buf[self.n] = bytes[i];
            }
            self.n += 1;
            i += 1;
        }
    }
}
fn same_hash_stream<A: Hash + ?Sized, B: Hash + ?Sized>(a: &A, b: &B) -> bool {
    let mut x = Rec { buf: [0; 40], n: 0 };
    let mut y = Rec { buf: [0; 40], n: 0 };
    a.hash(&mut x);
    b.hash(&mut y);
    x.n == y.n && x.buf == y.buf
}

const N: usize = 24;
/// SmallBytes for every byte string of length <= 24 (inline 0..=22, boxed 23..=24):
/// deref round trip, len, representation, Eq/Hash agree with the slice.
#[kani::proof]
#[kani::unwind(42)]
fn c05_small_bytes_roundtrip() {
    let buf: [u8; N] = kani::any();
    let len: usize = kani::any();
    kani::assume(len <= N);
    let s = &buf[..len];
    let sb = SmallBytes::from(s);
    assert!(sb.len() == len);
    assert!(&*sb == s, "deref returns exactly the bytes");
    assert!(sb.is_empty() == (len == 0));
    match &sb {
        SmallBytes::Small { .. } => assert!(len <= 22),
        SmallBytes::Large(_) => assert!(len > 22),
    }
    assert!(same_hash_stream(&sb, s), "Hash agrees with the slice's Hash (Borrow<[u8]> contract)");
    let sb2 = SmallBytes::from(s.to_vec());
    assert!(sb == sb2, "From<Vec<u8>> and From<&[u8]> give equal values");
    kani::cover!(len == 22);
    kani::cover!(len == 23);
    kani::cover!(len == 0);
}

/// Lengths beyond the symbolic-content bound: for every length up to 1100 (content all zero, so that the copies are
/// memcpy of a symbolic size rather than loops over symbolic bytes) the stored value has that length and the right
/// representation - length arithmetic (narrowing casts, capacity comparisons) is where long inputs go wrong.
static ZEROS: [u8; 1100] = [0; 1100];

#[kani::proof]
#[kani::unwind(3)]
fn c05_small_bytes_len_1100() {
    let len: usize = kani::any();
    kani::assume(len <= 1100);
    let s = &ZEROS[..len];
    let sb = SmallBytes::from(s);
    assert!(sb.len() == len, "the stored value has the length of the input");
    assert!(sb.is_empty() == (len == 0));
    match &sb {
        SmallBytes::Small { .. } => assert!(len <= 22),
        SmallBytes::Large(_) => assert!(len > 22),
    }
    if len > 0 {
        let i: usize = kani::any();
        kani::assume(i < len);
        assert!(sb[i] == 0);
    }
    kani::cover!(len == 256);
    kani::cover!(len == 1100);
    std::mem::forget(sb);
}

/// Eq on SmallBytes is slice equality (two symbolic strings of length <= 4).
#[kani::proof]
#[kani::unwind(42)]
fn c05_small_bytes_eq() {
    let b1: [u8; 4] = kani::any();
    let b2: [u8; 4] = kani::any();
    let l1: usize = kani::any();
    let l2: usize = kani::any();
    kani::assume(l1 <= 4 && l2 <= 4);
    let x = SmallBytes::from(&b1[..l1]);
    let y = SmallBytes::from(&b2[..l2]);
    assert!((x == y) == (b1[..l1] == b2[..l2]));
    if x == y {
        assert!(same_hash_stream(&x, &y));
    }
    kani::cover!(x == y && l1 == 3);
    kani::cover!(l1 == l2 && x != y);
}

const BV: [&[u8]; 6] = [b"", b"a", b"b", b"ab", b"ba", b"a-23-byte-long-string.."];
fn intern_b(sel: u8) -> BytesId {
    match sel {
        0 => intern_bytes(BV[0]),
        1 => intern_bytes(BV[1]),
        2 => intern_bytes(BV[2]),
        3 => intern_bytes(BV[3]),
        4 => intern_bytes(BV[4]),
        _ => intern_bytes(BV[5]),
    }
}
fn sel6() -> u8 {
    let s: u8 = kani::any();
    kani::assume(s < 6);
    s
}

/// BytesId / StringId over a candidate set chosen to contain the empty string (pre-allocated
/// EMPTY id), a same-shard triple ("a","b" in shard 19), different shards ("ab": 12, "ba": 11)
/// and a boxed (> 22 bytes) value: same id iff equal bytes, lookup returns the bytes, ids order
/// like their text.
#[kani::proof]
#[kani::unwind(26)]
fn c05_bytes_id_bijection_and_order() {
    let (x, y) = (sel6(), sel6());
    let i1 = intern_b(x);
    let i2 = intern_b(y);
    let (s1, s2) = (BV[x as usize], BV[y as usize]);
    assert!((i1 == i2) == (x == y), "same id exactly when the bytes are equal");
    assert!(i1.as_bytes() == s1 && i2.as_bytes() == s2, "lookup returns the interned bytes");
    assert!((i1 == BytesId::EMPTY) == (x == 0), "the empty string is the distinguished EMPTY id");
    assert!(i1.cmp(&i2) == s1.cmp(s2), "BytesId orders like its bytes");
    let t1 = StringId::from_bytes(i1).unwrap();
    let t2 = StringId::from_bytes(i2).unwrap();
    assert!(t1.as_str().as_bytes() == s1);
    assert!(t1.cmp(&t2) == s1.cmp(s2), "StringId orders like its text");
    assert!((t1 == t2) == (x == y));
    assert!(intern_b(x) == i1, "re-interning is stable");
    kani::cover!(x == y && x == 3, "equal non-empty strings");
    kani::cover!(x == 1 && y == 2, "same shard, different strings");
    kani::cover!(x == 5 && y == 0, "boxed and empty");
}
