#![allow(unused)]
#![allow(static_mut_refs)]
#[cfg(kani)]
mod arena_index;
#[cfg(kani)]
mod arena_seq;
#[cfg(kani)]
mod arena_sched;
#[cfg(kani)]
mod intern_seq;
