//! C06(b): sequential semantics of the arena through the real add/get/len/Drop code.
use intern::verif_hooks::{AtomicArena, Ref};
use std::cell::Cell;

/// Element with a drop counter (ghost state: how many times each id was dropped).
pub struct Counted<'c> {
    pub val: u16,
    pub drops: &'c Cell<u32>,
}
impl Drop for Counted<'_> {
    fn drop(&mut self) {
        self.drops.set(self.drops.get() + 1);
    }
}

/// n symbolic adds (n <= N) into a fresh arena; every earlier ref still reads its element,
/// refs are pairwise distinct and dense, len counts completed adds.
fn seq_add_get<const N: usize>() {
    let arena: AtomicArena<'_, u16> = AtomicArena::new();
    let n: usize = kani::any();
    kani::assume(n >= 1 && n <= N);
    let vals: [u16; N] = kani::any();
    let mut refs: [Option<Ref<'_, u16>>; N] = [None; N];
    let mut i = 0;
    while i < n {
        assert!(arena.len() == i);
        let r = arena.add(vals[i]);
        assert!(r.index() as usize == i, "dense stable index");
        refs[i] = Some(r);
        i += 1;
    }
    assert!(arena.len() == n);
    let k: usize = kani::any();
    kani::assume(k < n);
    assert!(*arena.get(refs[k].unwrap()) == vals[k], "get(add(x)) == x for an arbitrary earlier add");
    let j: usize = kani::any();
    kani::assume(j < n && j != k);
    assert!(refs[j].unwrap() != refs[k].unwrap(), "refs pairwise distinct");
    kani::cover!(n == N && k == 0, "full run, first element read back");
}

#[kani::proof]
#[kani::unwind(6)]
fn c06_seq_add_get_4() {
    seq_add_get::<4>();
}

/// Crosses the first bucket boundary (128 slots): the arena is pre-filled with 126 concrete
/// elements, then up to 4 symbolic adds straddle the boundary into the second bucket.
#[kani::proof]
#[kani::unwind(132)]
fn c06_seq_bucket_boundary() {
    let arena: AtomicArena<'_, u16> = AtomicArena::new();
    let mut i: u16 = 0;
    while i < 126 {
        arena.add(i);
        i += 1;
    }
    let a: u16 = kani::any();
    let b: u16 = kani::any();
    let c: u16 = kani::any();
    let d: u16 = kani::any();
    let ra = arena.add(a); // slot 126
    let rb = arena.add(b); // slot 127: last of bucket 24
    let rc = arena.add(c); // slot 128: first of bucket 23 (allocates)
    let rd = arena.add(d); // slot 129
    assert!(arena.len() == 130);
    assert!(ra.index() == 126 && rb.index() == 127 && rc.index() == 128 && rd.index() == 129);
    assert!(*arena.get(ra) == a && *arena.get(rb) == b && *arena.get(rc) == c && *arena.get(rd) == d);
    let k: u32 = kani::any();
    kani::assume(k < 126);
    let rk: Ref<'_, u16> = unsafe { Ref::from_index(k) };
    assert!(*arena.get(rk) == k as u16, "elements before the boundary unchanged");
    kani::cover!(k == 125 && a != b && c != d);
}

/// Dropping the arena drops every added element exactly once (n <= 3 symbolic adds).
#[kani::proof]
#[kani::unwind(27)]
fn c06_seq_drop_once() {
    let drops = [Cell::new(0u32), Cell::new(0u32), Cell::new(0u32)];
    let n: usize = kani::any();
    kani::assume(n <= 3);
    {
        let arena: AtomicArena<'_, Counted<'_>> = AtomicArena::new();
        let mut i = 0;
        while i < n {
            arena.add(Counted { val: i as u16, drops: &drops[i] });
            i += 1;
        }
        let mut j = 0;
        while j < 3 {
            assert!(drops[j].get() == 0, "nothing dropped while the arena is alive");
            j += 1;
        }
    }
    let mut j = 0;
    while j < 3 {
        assert!(drops[j].get() == if j < n { 1 } else { 0 }, "each added element dropped exactly once");
        j += 1;
    }
    kani::cover!(n == 3);
    kani::cover!(n == 0);
}

/// Drop across the bucket boundary: 130 elements, two buckets, each dropped exactly once.
#[kani::proof]
#[kani::unwind(132)]
fn c06_seq_drop_two_buckets() {
    let total = Cell::new(0u32);
    let n: u16 = kani::any();
    kani::assume(n >= 127 && n <= 130);
    {
        let arena: AtomicArena<'_, Counted<'_>> = AtomicArena::new();
        let mut i: u16 = 0;
        while i < n {
            arena.add(Counted { val: i, drops: &total });
            i += 1;
        }
        assert!(total.get() == 0);
    }
    assert!(total.get() == n as u32, "every element of both buckets dropped exactly once in total");
    kani::cover!(n == 128);
    kani::cover!(n == 130);
}
