//! C06(a): arena index arithmetic, decided for the full u32 range.
use intern::verif_hooks::arena::{bucket_capacity, index, MAX_INDEX, MIN_SIZE, NUM_SIZES};

/// For every biased index i >= MIN_SIZE: (a, b) = index(i) addresses a slot inside bucket a,
/// and the mapping is the documented one (capacity(a) + b == i).
#[kani::proof]
fn c06_index_in_bounds() {
    let i: u32 = kani::any();
    kani::assume(i >= MIN_SIZE);
    let (a, b) = index(i);
    assert!(a < NUM_SIZES);
    assert!(b < bucket_capacity(a));
    assert!(bucket_capacity(a) as u64 + b as u64 == i as u64);
    kani::cover!(a == 0 && b == bucket_capacity(0) - 1, "last slot reachable");
    kani::cover!(a == NUM_SIZES - 1 && b == 0, "first slot reachable");
}

/// Two different biased indices never address the same (bucket, offset).
#[kani::proof]
fn c06_index_injective() {
    let i: u32 = kani::any();
    let j: u32 = kani::any();
    kani::assume(i >= MIN_SIZE && j >= MIN_SIZE && i != j);
    let (a1, b1) = index(i);
    let (a2, b2) = index(j);
    assert!(a1 != a2 || b1 != b2);
    kani::cover!(a1 == a2, "same bucket, different offset reachable");
}

/// Consecutive indices stay in a bucket (offset + 1) or move to the next bucket at offset 0.
#[kani::proof]
fn c06_index_monotone() {
    let i: u32 = kani::any();
    kani::assume(i >= MIN_SIZE && i < u32::MAX);
    let (a0, b0) = index(i);
    let (a1, b1) = index(i + 1);
    assert!((a0 == a1 && b1 == b0 + 1) || (a0 == a1 + 1 && b1 == 0 && b0 == bucket_capacity(a0) - 1));
    kani::cover!(a0 == a1 + 1, "bucket boundary crossed");
}

/// Capacities: bucket NUM_SIZES-1 holds MIN_SIZE slots, each earlier bucket twice the next.
#[kani::proof]
fn c06_bucket_capacity_shape() {
    let a: usize = kani::any();
    kani::assume(a < NUM_SIZES);
    let c = bucket_capacity(a);
    assert!(c >= MIN_SIZE as usize);
    if a + 1 < NUM_SIZES {
        assert!(c == 2 * bucket_capacity(a + 1));
    } else {
        assert!(c == MIN_SIZE as usize);
    }
    kani::cover!(a == 0);
}

/// Ref::index / Ref::from_index round trip for every unbiased index up to MAX_INDEX.
#[kani::proof]
fn c06_ref_index_roundtrip() {
    use intern::verif_hooks::Ref;
    let i: u32 = kani::any();
    kani::assume(i <= MAX_INDEX);
    let r: Ref<'static, u8> = unsafe { Ref::from_index(i) };
    assert!(r.index() == i);
    let j: u32 = kani::any();
    kani::assume(j <= MAX_INDEX);
    let r2: Ref<'static, u8> = unsafe { Ref::from_index(j) };
    assert!((r == r2) == (i == j));
    kani::cover!(i == MAX_INDEX);
}
