use crate::prog::*;
use pico::{Database, Key, SourceId};

#[kani::proof]
#[kani::unwind(12)]
fn gate_concrete_history() {
    let mut db = TestDb::new(2);
    let id0 = db.set(A { key: 0, v: 3 });
    db.set(S { v: 10 });
    assert!(*h(&db, id0) == 11);
    db.set(A { key: 0, v: 5 });
    assert!(*h(&db, id0) == 11);
    db.set(S { v: 20 });
    assert!(*h(&db, id0) == 21);
    unsafe { assert!(RUNS_G == 2); }
    std::mem::forget(db);
}

#[kani::proof]
#[kani::unwind(10)]
fn gate_step1_new_set() {
    let mut db = TestDb::new(2);
    let id0 = db.set(A { key: 0, v: 3 });
    assert!(db.get(id0).v == 3);
    std::mem::forget(db);
}

#[kani::proof]
#[kani::unwind(10)]
fn gate_step2_one_call() {
    let mut db = TestDb::new(2);
    let id0 = db.set(A { key: 0, v: 3 });
    assert!(*f(&db, id0) == 1);
    std::mem::forget(db);
}

#[kani::proof]
#[kani::unwind(10)]
fn gate_step3_two_calls() {
    let mut db = TestDb::new(2);
    let id0 = db.set(A { key: 0, v: 3 });
    assert!(*f(&db, id0) == 1);
    db.set(A { key: 0, v: 4 });
    assert!(*f(&db, id0) == 0);
    std::mem::forget(db);
}

#[kani::proof]
#[kani::unwind(10)]
fn gate_step4_nested() {
    let mut db = TestDb::new(2);
    let id0 = db.set(A { key: 0, v: 3 });
    db.set(S { v: 10 });
    assert!(*h(&db, id0) == 11);
    std::mem::forget(db);
}

#[kani::proof]
#[kani::unwind(10)]
fn gate_step5_nested_twice() {
    let mut db = TestDb::new(2);
    let id0 = db.set(A { key: 0, v: 3 });
    db.set(S { v: 10 });
    assert!(*h(&db, id0) == 11);
    db.set(A { key: 0, v: 5 });
    assert!(*h(&db, id0) == 11);
    std::mem::forget(db);
}

#[kani::proof]
#[kani::unwind(10)]
fn gate_step6_symbolic_values() {
    let mut db = TestDb::new(2);
    let v0: u8 = kani::any();
    let v1: u8 = kani::any();
    let id0 = db.set(A { key: 0, v: v0 });
    assert!(*f(&db, id0) == v0 & 1);
    db.set(A { key: 0, v: v1 });
    assert!(*f(&db, id0) == v1 & 1);
    std::mem::forget(db);
}
