//! The harness program: one database, two keyed sources A{0,1}, one singleton S, memo functions.
use pico::{Database, Key, MemoRef, Singleton, Source, SourceId, Storage};
use pico_macros::{Db, memo};

#[derive(Db)]
pub struct TestDb {
    pub storage: Storage<Self>,
}
impl TestDb {
    pub fn new(cap: usize) -> Self {
        TestDb { storage: Storage::new_with_capacity(cap.try_into().unwrap()) }
    }
}

#[derive(Debug, Clone, PartialEq, Eq)]
pub struct A {
    pub key: u8,
    pub v: u8,
}
/// Hand-written instead of `#[derive(Source)]`: the derive hashes a TypeId with SipHash, which
/// CBMC cannot decide in reasonable time (DESIGN.md probe P4). Keys are small constants.
impl Source for A {
    fn get_key(&self) -> Key {
        Key::from(100 + self.key as u64)
    }
}

#[derive(Debug, Clone, PartialEq, Eq)]
pub struct S {
    pub v: u8,
}
impl Singleton for S {
    fn get_singleton_key() -> Key {
        Key::from(200u64)
    }
}
impl Source for S {
    fn get_key(&self) -> Key {
        <S as Singleton>::get_singleton_key()
    }
}

pub static mut RUNS_F: [u32; 2] = [0; 2];
pub static mut RUNS_G: u32 = 0;
pub static mut RUNS_H: [u32; 2] = [0; 2];

pub fn idx_of(id: SourceId<A>) -> usize {
    if id.key == Key::from(100u64) { 0 } else { 1 }
}

pub const ABSENT: u8 = 200;

#[memo]
pub fn f(db: &TestDb, id: SourceId<A>) -> u8 {
    unsafe { RUNS_F[idx_of(id)] += 1 };
    db.get(id).v & 1
}

#[memo]
pub fn g(db: &TestDb) -> u8 {
    unsafe { RUNS_G += 1 };
    match db.get_singleton::<S>() {
        Some(s) => s.v,
        None => ABSENT,
    }
}

#[memo]
pub fn h(db: &TestDb, id: SourceId<A>) -> u8 {
    unsafe { RUNS_H[idx_of(id)] += 1 };
    f(db, id).wrapping_add(*g(db))
}
