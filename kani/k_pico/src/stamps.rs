//! C02 (write path): revision-stamp discipline of source writes, through the real
//! Storage::set / InternalStorage::set_source / remove_source over the container stand-ins.
use crate::prog::*;
use pico::{Database, Key, Source, SourceId};

fn stamp(db: &TestDb, key: u64) -> Option<usize> {
    db.storage.verif_source_time_updated(Key::from(key))
}

/// An equal-value write leaves the source untouched (stamp and epoch), also after an unrelated
/// change advanced the epoch; a different value advances the epoch and restamps the source.
#[kani::proof]
#[kani::unwind(10)]
fn c02_equal_value_write_keeps_stamp() {
    let (v0, v1, w0, w1): (u8, u8, u8, u8) = (kani::any(), kani::any(), kani::any(), kani::any());
    let mut db = TestDb::new(2);
    db.set(A { key: 0, v: v0 });
    db.set(A { key: 1, v: w0 });
    db.set(A { key: 1, v: w1 }); // unrelated source: advances the epoch iff w1 != w0
    let t_before = stamp(&db, 100).unwrap();
    let e_before = db.storage.verif_current_epoch();
    db.set(A { key: 0, v: v1 });
    let t_after = stamp(&db, 100).unwrap();
    let e_after = db.storage.verif_current_epoch();
    if v1 == v0 {
        assert!(e_after == e_before, "an equal-value write does not advance the epoch");
        assert!(t_after == t_before, "an equal-value write leaves the source's revision stamp untouched");
    } else {
        assert!(e_after == e_before + 1, "a changed value advances the epoch");
        assert!(t_after == e_after && t_after > t_before, "a changed value is stamped with the new epoch");
    }
    assert!(stamp(&db, 101).is_some() && db.get(SourceId::<A>::from(Key::from(100u64))).v == v1);
    kani::cover!(v1 == v0 && w1 != w0, "equal-value write after an unrelated change");
    kani::cover!(v1 != v0 && w1 == w0);
    std::mem::forget(db);
}

/// Removing a source advances the epoch (dependents must notice), removing an absent one does not.
#[kani::proof]
#[kani::unwind(10)]
fn c02_remove_advances_epoch_once() {
    let v0: u8 = kani::any();
    let mut db = TestDb::new(2);
    let id = db.set(A { key: 0, v: v0 });
    let e0 = db.storage.verif_current_epoch();
    db.remove(id);
    let e1 = db.storage.verif_current_epoch();
    assert!(e1 == e0 + 1 && stamp(&db, 100).is_none());
    db.remove(id);
    assert!(db.storage.verif_current_epoch() == e1, "removing an absent source changes nothing");
    kani::cover!(true);
    std::mem::forget(db);
}
