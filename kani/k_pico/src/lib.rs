#![allow(unused)]
#![allow(static_mut_refs)]
#[cfg(kani)]
mod prog;
#[cfg(kani)]
mod stamps;
