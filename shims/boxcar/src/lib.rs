//! Verification stand-in for `boxcar` 0.2.10: append-only vector, `push(&self)`, elements never
//! move. Fixed capacity CAP (exceeding it panics = infrastructure error in a harness).
#![allow(clippy::all)]
use std::cell::UnsafeCell;

pub const CAP: usize = 12;

struct Inner<T> {
    len: usize,
    items: [Option<Box<T>>; CAP],
}
pub struct Vec<T> {
    inner: UnsafeCell<Inner<T>>,
}
unsafe impl<T: Send> Send for Vec<T> {}
unsafe impl<T: Send + Sync> Sync for Vec<T> {}

impl<T> Default for Vec<T> {
    fn default() -> Self {
        Self::new()
    }
}
impl<T> std::fmt::Debug for Vec<T> {
    fn fmt(&self, f: &mut std::fmt::Formatter<'_>) -> std::fmt::Result {
        f.write_str("boxcar::Vec { .. }")
    }
}
impl<T> Vec<T> {
    pub const fn new() -> Self {
        Vec { inner: UnsafeCell::new(Inner { len: 0, items: [const { None }; CAP] }) }
    }
    #[allow(clippy::mut_from_ref)]
    fn i(&self) -> &mut Inner<T> {
        unsafe { &mut *self.inner.get() }
    }
    pub fn push(&self, value: T) -> usize {
        let inner = self.i();
        let n = inner.len;
        if n >= CAP {
            panic!("verification stand-in boxcar capacity exceeded");
        }
        unsafe { std::ptr::write(&mut inner.items[n], Some(Box::new(value))) };
        inner.len = n + 1;
        n
    }
    pub fn get(&self, index: usize) -> Option<&T> {
        let inner = self.i();
        if index < CAP {
            match &inner.items[index] {
                Some(b) => Some(&**b),
                None => None,
            }
        } else {
            None
        }
    }
    pub fn get_mut(&mut self, index: usize) -> Option<&mut T> {
        let inner = self.inner.get_mut();
        if index < CAP {
            match &mut inner.items[index] {
                Some(b) => Some(&mut **b),
                None => None,
            }
        } else {
            None
        }
    }
    pub fn count(&self) -> usize {
        self.i().len
    }
    pub fn is_empty(&self) -> bool {
        self.i().len == 0
    }
}
pub struct IntoIter<T> {
    inner: Inner<T>,
    pos: usize,
}
impl<T> Iterator for IntoIter<T> {
    type Item = T;
    fn next(&mut self) -> Option<T> {
        if self.pos < CAP {
            let p = self.pos;
            self.pos += 1;
            self.inner.items[p].take().map(|b| *b)
        } else {
            None
        }
    }
}
impl<T> IntoIterator for Vec<T> {
    type Item = T;
    type IntoIter = IntoIter<T>;
    fn into_iter(self) -> IntoIter<T> {
        IntoIter { inner: self.inner.into_inner(), pos: 0 }
    }
}
