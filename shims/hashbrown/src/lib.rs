//! Verification stand-in for `hashbrown` 0.12.3 `raw::RawTable` (the only item /repo uses,
//! in relay-crates/intern/src/sharded_set.rs): a fixed-capacity association list of
//! (hash, value). Contract modelled: `get(hash, eq)` returns an element previously inserted
//! with the same hash for which `eq` holds, if any; `insert` stores unconditionally.
//! Loops run over the constant CAP with a local counter (CBMC unwinds them exactly; a loop
//! bounded by a heap-stored length is unwound to the global bound at every call).
#![allow(clippy::all)]

pub mod raw {
    /// Capacity per table (= per shard of intern's ShardedSet). Exceeding it panics, which a
    /// harness reports as an infrastructure error, never as a verdict.
    pub const CAP: usize = 6;

    pub struct RawTable<T> {
        len: usize,
        items: [Option<(u64, T)>; CAP],
    }
    pub struct Bucket<T> {
        ptr: *mut T,
    }
    impl<T> Bucket<T> {
        pub unsafe fn as_ref<'a>(&self) -> &'a T {
            &*self.ptr
        }
        pub unsafe fn as_mut<'a>(&self) -> &'a mut T {
            &mut *self.ptr
        }
    }
    impl<T> Default for RawTable<T> {
        fn default() -> Self {
            Self::new()
        }
    }
    impl<T> RawTable<T> {
        pub const fn new() -> Self {
            RawTable { len: 0, items: [const { None }; CAP] }
        }
        pub fn len(&self) -> usize {
            self.len
        }
        pub fn is_empty(&self) -> bool {
            self.len == 0
        }
        pub fn get(&self, hash: u64, mut eq: impl FnMut(&T) -> bool) -> Option<&T> {
            let mut i = 0;
            while i < CAP {
                if let Some((h, v)) = &self.items[i] {
                    if *h == hash && eq(v) {
                        return Some(v);
                    }
                }
                i += 1;
            }
            None
        }
        pub fn get_mut(&mut self, hash: u64, mut eq: impl FnMut(&T) -> bool) -> Option<&mut T> {
            let mut i = 0;
            while i < CAP {
                let hit = match &self.items[i] {
                    Some((h, v)) => *h == hash && eq(v),
                    None => false,
                };
                if hit {
                    return self.items[i].as_mut().map(|p| &mut p.1);
                }
                i += 1;
            }
            None
        }
        pub fn insert(&mut self, hash: u64, value: T, _hasher: impl Fn(&T) -> u64) -> Bucket<T> {
            let n = self.len;
            if n >= CAP {
                panic!("verification stand-in hashbrown::RawTable capacity exceeded");
            }
            unsafe { std::ptr::write(&mut self.items[n], Some((hash, value))) };
            self.len = n + 1;
            Bucket { ptr: &mut self.items[n].as_mut().unwrap().1 as *mut T }
        }
    }
}
