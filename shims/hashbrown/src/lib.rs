//! Verification stand-in for `hashbrown` 0.12.3 `raw::RawTable` (the only item /repo uses,
//! in relay-crates/intern/src/sharded_set.rs): an association list of (hash, value).
//! Contract modelled: `get(hash, eq)` returns an element previously inserted with the same
//! hash for which `eq` holds, if any; `insert` stores unconditionally.
#![allow(clippy::all)]

pub mod raw {
    pub struct RawTable<T> {
        items: Vec<(u64, T)>,
    }
    pub struct Bucket<T> {
        ptr: *mut T,
    }
    impl<T> Bucket<T> {
        pub unsafe fn as_ref<'a>(&self) -> &'a T {
            &*self.ptr
        }
        pub unsafe fn as_mut<'a>(&self) -> &'a mut T {
            &mut *self.ptr
        }
    }
    impl<T> Default for RawTable<T> {
        fn default() -> Self {
            Self::new()
        }
    }
    impl<T> RawTable<T> {
        pub const fn new() -> Self {
            RawTable { items: Vec::new() }
        }
        pub fn len(&self) -> usize {
            self.items.len()
        }
        pub fn is_empty(&self) -> bool {
            self.items.is_empty()
        }
        pub fn get(&self, hash: u64, mut eq: impl FnMut(&T) -> bool) -> Option<&T> {
            let mut i = 0;
            while i < self.items.len() {
                let (h, v) = &self.items[i];
                if *h == hash && eq(v) {
                    return Some(v);
                }
                i += 1;
            }
            None
        }
        pub fn get_mut(&mut self, hash: u64, mut eq: impl FnMut(&T) -> bool) -> Option<&mut T> {
            let mut i = 0;
            while i < self.items.len() {
                if self.items[i].0 == hash && eq(&self.items[i].1) {
                    return Some(&mut self.items[i].1);
                }
                i += 1;
            }
            None
        }
        pub fn insert(&mut self, hash: u64, value: T, _hasher: impl Fn(&T) -> u64) -> Bucket<T> {
            self.items.push((hash, value));
            let last = self.items.len() - 1;
            Bucket { ptr: &mut self.items[last].1 as *mut T }
        }
    }
}
