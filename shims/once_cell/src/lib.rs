//! Verification stand-in for `once_cell` 1.20.3: OnceCell/Lazy as `UnsafeCell<Option<T>>`.
//! Models the contract "initialised at most once, then immutable"; a re-entrant
//! initialisation panics like the real crate.
#![allow(clippy::all)]

macro_rules! imp {
    () => {
        use std::cell::{Cell, UnsafeCell};
        use std::ops::Deref;

        pub struct OnceCell<T> {
            inner: UnsafeCell<Option<T>>,
            initializing: Cell<bool>,
        }
        unsafe impl<T: Sync + Send> Sync for OnceCell<T> {}
        unsafe impl<T: Send> Send for OnceCell<T> {}
        impl<T> Default for OnceCell<T> {
            fn default() -> Self {
                Self::new()
            }
        }
        impl<T: std::fmt::Debug> std::fmt::Debug for OnceCell<T> {
            fn fmt(&self, f: &mut std::fmt::Formatter<'_>) -> std::fmt::Result {
                f.write_str("OnceCell(..)")
            }
        }
        impl<T> OnceCell<T> {
            pub const fn new() -> Self {
                OnceCell { inner: UnsafeCell::new(None), initializing: Cell::new(false) }
            }
            pub const fn with_value(value: T) -> Self {
                OnceCell { inner: UnsafeCell::new(Some(value)), initializing: Cell::new(false) }
            }
            pub fn get(&self) -> Option<&T> {
                unsafe { (*self.inner.get()).as_ref() }
            }
            pub fn get_mut(&mut self) -> Option<&mut T> {
                self.inner.get_mut().as_mut()
            }
            pub fn set(&self, value: T) -> Result<(), T> {
                if self.get().is_some() {
                    return Err(value);
                }
                unsafe { std::ptr::write(self.inner.get(), Some(value)) };
                Ok(())
            }
            pub fn get_or_init<F: FnOnce() -> T>(&self, f: F) -> &T {
                if let Some(v) = self.get() {
                    return v;
                }
                if self.initializing.get() {
                    panic!("reentrant init");
                }
                self.initializing.set(true);
                let v = f();
                self.initializing.set(false);
                // The slot is None here (checked above, single-threaded model): write without
                // running drop glue on the old content (keeps CBMC from exploring it).
                unsafe { std::ptr::write(self.inner.get(), Some(v)) };
                self.get().unwrap()
            }
            pub fn get_or_try_init<F: FnOnce() -> Result<T, E>, E>(&self, f: F) -> Result<&T, E> {
                if let Some(v) = self.get() {
                    return Ok(v);
                }
                let v = f()?;
                unsafe { std::ptr::write(self.inner.get(), Some(v)) };
                Ok(self.get().unwrap())
            }
            pub fn take(&mut self) -> Option<T> {
                self.inner.get_mut().take()
            }
            pub fn into_inner(self) -> Option<T> {
                self.inner.into_inner()
            }
        }

        pub struct Lazy<T, F = fn() -> T> {
            cell: OnceCell<T>,
            init: Cell<Option<F>>,
        }
        unsafe impl<T, F: Send> Sync for Lazy<T, F> where OnceCell<T>: Sync {}
        impl<T, F> Lazy<T, F> {
            pub const fn new(f: F) -> Self {
                Lazy { cell: OnceCell::new(), init: Cell::new(Some(f)) }
            }
        }
        impl<T, F: FnOnce() -> T> Lazy<T, F> {
            pub fn force(this: &Lazy<T, F>) -> &T {
                this.cell.get_or_init(|| match this.init.take() {
                    Some(f) => f(),
                    None => panic!("Lazy instance has previously been poisoned"),
                })
            }
            pub fn get(this: &Lazy<T, F>) -> Option<&T> {
                this.cell.get()
            }
        }
        impl<T, F: FnOnce() -> T> Deref for Lazy<T, F> {
            type Target = T;
            fn deref(&self) -> &T {
                Lazy::force(self)
            }
        }
        impl<T: Default> Default for Lazy<T> {
            fn default() -> Lazy<T> {
                Lazy::new(T::default)
            }
        }
        impl<T: std::fmt::Debug, F> std::fmt::Debug for Lazy<T, F> {
            fn fmt(&self, f: &mut std::fmt::Formatter<'_>) -> std::fmt::Result {
                f.write_str("Lazy(..)")
            }
        }
    };
}

pub mod sync {
    imp!();
}
pub mod unsync {
    imp!();
}
