//! Verification stand-in for `dashmap` 6.1.0 (API subset used by /repo's pico crate).
//! Contract modelled: a map from keys to values under `K: Eq`; `&self` mutation (interior
//! mutability); element addresses are stable while the element is in the map. No hashing.
//! Fixed capacity CAP; every loop runs over the constant CAP with a local counter, so CBMC
//! unwinds it exactly (a loop bounded by a heap-stored length is unwound to the global bound at
//! every call site, which made a concrete 3-call pico history run past 20 minutes).
//! Per-key lock discipline of the real crate: while an `Entry`/`RefMut` for key k is alive,
//! another access to the same key from the same thread deadlocks in the real crate; here it
//! panics ("dashmap re-entrant access") so that such a bug is reported, not hidden.
#![allow(clippy::all)]
use std::cell::{Cell, UnsafeCell};
use std::hash::Hash;
use std::marker::PhantomData;
use std::ops::{Deref, DerefMut};

pub const CAP: usize = 8;

struct Slot<K, V> {
    key: K,
    value: V,
    /// 0 free, >0 shared guards, -1 exclusive guard
    state: Cell<isize>,
}

struct Inner<K, V> {
    items: [Option<Box<Slot<K, V>>>; CAP],
}

pub struct DashMap<K, V> {
    inner: UnsafeCell<Inner<K, V>>,
}
unsafe impl<K: Send, V: Send> Send for DashMap<K, V> {}
unsafe impl<K: Send + Sync, V: Send + Sync> Sync for DashMap<K, V> {}

impl<K, V> Default for DashMap<K, V> {
    fn default() -> Self {
        DashMap { inner: UnsafeCell::new(Inner { items: [const { None }; CAP] }) }
    }
}
impl<K, V> std::fmt::Debug for DashMap<K, V> {
    fn fmt(&self, f: &mut std::fmt::Formatter<'_>) -> std::fmt::Result {
        f.write_str("DashMap { .. }")
    }
}

fn reentrant() -> ! {
    panic!("dashmap re-entrant access to a key that is already guarded (deadlock in the real crate)")
}

impl<K: Eq + Hash, V> DashMap<K, V> {
    pub fn new() -> Self {
        Self::default()
    }
    #[allow(clippy::mut_from_ref)]
    fn s(&self) -> &mut [Option<Box<Slot<K, V>>>; CAP] {
        unsafe { &mut (*self.inner.get()).items }
    }
    fn find(&self, key: &K) -> Option<usize> {
        let s = self.s();
        let mut i = 0;
        while i < CAP {
            if let Some(slot) = &s[i] {
                if slot.key == *key {
                    return Some(i);
                }
            }
            i += 1;
        }
        None
    }
    fn free_slot(&self) -> usize {
        let s = self.s();
        let mut i = 0;
        while i < CAP {
            if s[i].is_none() {
                return i;
            }
            i += 1;
        }
        panic!("verification stand-in dashmap capacity exceeded")
    }
    pub fn len(&self) -> usize {
        let s = self.s();
        let mut n = 0;
        let mut i = 0;
        while i < CAP {
            if s[i].is_some() {
                n += 1;
            }
            i += 1;
        }
        n
    }
    pub fn is_empty(&self) -> bool {
        self.len() == 0
    }
    pub fn contains_key(&self, key: &K) -> bool {
        self.find(key).is_some()
    }
    fn slot_ptr(&self, i: usize) -> *mut Slot<K, V> {
        match &mut self.s()[i] {
            Some(b) => &mut **b,
            None => unreachable!(),
        }
    }
    pub fn get<'a>(&'a self, key: &K) -> Option<Ref<'a, K, V>> {
        let i = self.find(key)?;
        let slot = self.slot_ptr(i) as *const Slot<K, V>;
        let s = unsafe { &*slot };
        if s.state.get() < 0 {
            reentrant();
        }
        s.state.set(s.state.get() + 1);
        Some(Ref { slot, _p: PhantomData })
    }
    pub fn get_mut<'a>(&'a self, key: &K) -> Option<RefMut<'a, K, V>> {
        let i = self.find(key)?;
        let slot = self.slot_ptr(i);
        let s = unsafe { &*slot };
        if s.state.get() != 0 {
            reentrant();
        }
        s.state.set(-1);
        Some(RefMut { slot, _p: PhantomData })
    }
    pub fn insert(&self, key: K, value: V) -> Option<V> {
        if let Some(i) = self.find(&key) {
            let slot = unsafe { &mut *self.slot_ptr(i) };
            if slot.state.get() != 0 {
                reentrant();
            }
            Some(std::mem::replace(&mut slot.value, value))
        } else {
            let i = self.free_slot();
            unsafe { std::ptr::write(&mut self.s()[i], Some(Box::new(Slot { key, value, state: Cell::new(0) }))) };
            None
        }
    }
    pub fn remove(&self, key: &K) -> Option<(K, V)> {
        let i = self.find(key)?;
        let b = self.s()[i].take().unwrap();
        if b.state.get() != 0 {
            reentrant();
        }
        let Slot { key, value, .. } = *b;
        Some((key, value))
    }
    pub fn entry<'a>(&'a self, key: K) -> Entry<'a, K, V> {
        match self.find(&key) {
            Some(i) => {
                let slot = self.slot_ptr(i);
                let s = unsafe { &*slot };
                if s.state.get() != 0 {
                    reentrant();
                }
                s.state.set(-1);
                Entry::Occupied(OccupiedEntry { map: self, slot, key })
            }
            None => Entry::Vacant(VacantEntry { map: self, key }),
        }
    }
    /// Iteration order: slot order (insertion order for a map without removals). The real
    /// crate's order is unspecified; nothing in /repo may depend on it.
    pub fn iter<'a>(&'a self) -> Iter<'a, K, V> {
        Iter { map: self, pos: 0 }
    }
    pub fn clear(&self) {
        let s = self.s();
        let mut i = 0;
        while i < CAP {
            s[i] = None;
            i += 1;
        }
    }
}

pub struct Ref<'a, K, V> {
    slot: *const Slot<K, V>,
    _p: PhantomData<&'a ()>,
}
impl<'a, K, V> Ref<'a, K, V> {
    pub fn key(&self) -> &K {
        unsafe { &(*self.slot).key }
    }
    pub fn value(&self) -> &V {
        unsafe { &(*self.slot).value }
    }
    pub fn pair(&self) -> (&K, &V) {
        (self.key(), self.value())
    }
}
impl<'a, K, V> Deref for Ref<'a, K, V> {
    type Target = V;
    fn deref(&self) -> &V {
        self.value()
    }
}
impl<'a, K, V> Drop for Ref<'a, K, V> {
    fn drop(&mut self) {
        let s = unsafe { &*self.slot };
        s.state.set(s.state.get() - 1);
    }
}

pub struct RefMut<'a, K, V> {
    slot: *mut Slot<K, V>,
    _p: PhantomData<&'a ()>,
}
impl<'a, K, V> RefMut<'a, K, V> {
    pub fn key(&self) -> &K {
        unsafe { &(*self.slot).key }
    }
    pub fn value(&self) -> &V {
        unsafe { &(*self.slot).value }
    }
    pub fn value_mut(&mut self) -> &mut V {
        unsafe { &mut (*self.slot).value }
    }
}
impl<'a, K, V> Deref for RefMut<'a, K, V> {
    type Target = V;
    fn deref(&self) -> &V {
        self.value()
    }
}
impl<'a, K, V> DerefMut for RefMut<'a, K, V> {
    fn deref_mut(&mut self) -> &mut V {
        self.value_mut()
    }
}
impl<'a, K, V> Drop for RefMut<'a, K, V> {
    fn drop(&mut self) {
        unsafe { (*self.slot).state.set(0) };
    }
}

pub enum Entry<'a, K, V> {
    Occupied(OccupiedEntry<'a, K, V>),
    Vacant(VacantEntry<'a, K, V>),
}
pub struct OccupiedEntry<'a, K, V> {
    map: &'a DashMap<K, V>,
    slot: *mut Slot<K, V>,
    key: K,
}
impl<'a, K: Eq + Hash, V> OccupiedEntry<'a, K, V> {
    pub fn get(&self) -> &V {
        unsafe { &(*self.slot).value }
    }
    pub fn get_mut(&mut self) -> &mut V {
        unsafe { &mut (*self.slot).value }
    }
    pub fn key(&self) -> &K {
        &self.key
    }
    pub fn insert(&mut self, value: V) -> V {
        std::mem::replace(self.get_mut(), value)
    }
    pub fn remove(self) -> V {
        unsafe { (*self.slot).state.set(0) };
        let map = self.map;
        let key = unsafe { std::ptr::read(&self.key) };
        std::mem::forget(self);
        map.remove(&key).expect("occupied entry present").1
    }
}
impl<'a, K, V> Drop for OccupiedEntry<'a, K, V> {
    fn drop(&mut self) {
        unsafe { (*self.slot).state.set(0) };
    }
}
pub struct VacantEntry<'a, K, V> {
    map: &'a DashMap<K, V>,
    key: K,
}
impl<'a, K: Eq + Hash, V> VacantEntry<'a, K, V> {
    pub fn insert(self, value: V) -> RefMut<'a, K, V> {
        let i = self.map.free_slot();
        unsafe { std::ptr::write(&mut self.map.s()[i], Some(Box::new(Slot { key: self.key, value, state: Cell::new(-1) }))) };
        RefMut { slot: self.map.slot_ptr(i), _p: PhantomData }
    }
    pub fn key(&self) -> &K {
        &self.key
    }
}

pub struct Iter<'a, K, V> {
    map: &'a DashMap<K, V>,
    pos: usize,
}
pub struct RefMulti<'a, K, V> {
    slot: *const Slot<K, V>,
    _p: PhantomData<&'a ()>,
}
impl<'a, K, V> RefMulti<'a, K, V> {
    pub fn key(&self) -> &K {
        unsafe { &(*self.slot).key }
    }
    pub fn value(&self) -> &V {
        unsafe { &(*self.slot).value }
    }
}
impl<'a, K, V> Deref for RefMulti<'a, K, V> {
    type Target = V;
    fn deref(&self) -> &V {
        self.value()
    }
}
impl<'a, K: Eq + Hash, V> Iterator for Iter<'a, K, V> {
    type Item = RefMulti<'a, K, V>;
    fn next(&mut self) -> Option<Self::Item> {
        let s = self.map.s();
        while self.pos < CAP {
            let p = self.pos;
            self.pos += 1;
            if let Some(b) = &s[p] {
                let slot: *const Slot<K, V> = &**b;
                return Some(RefMulti { slot, _p: PhantomData });
            }
        }
        None
    }
}
