//! Verification stand-in for `parking_lot` 0.12.3 (only the API subset used by /repo).
//!
//! It is a *sequential model of the lock contract*: a lock is a flag; acquiring a lock
//! that is already held cannot make progress in a single-threaded model, so it is
//! reported through `verif::blocked()` (a schedule harness installs a hook that prunes
//! the schedule; without a hook it is a panic = self-deadlock). Every acquisition is a
//! scheduling point: `verif::yield_point()` runs the harness-installed hook first.
#![allow(clippy::all)]

use std::cell::{Cell, UnsafeCell};
use std::ops::{Deref, DerefMut};

pub mod verif {
    /// Hook invoked before every lock acquisition (scheduling point). Argument: a site code.
    pub static mut YIELD_HOOK: Option<fn(u32)> = None;
    /// Hook invoked when an acquisition would block. Must not return normally in a
    /// schedule harness (e.g. `kani::assume(false)`).
    pub static mut BLOCKED_HOOK: Option<fn()> = None;
    /// Number of lock acquisitions performed (ghost counter, usable in covers).
    pub static mut ACQUISITIONS: u32 = 0;

    #[inline(never)]
    pub fn yield_point(site: u32) {
        #[allow(static_mut_refs)]
        unsafe {
            if let Some(h) = YIELD_HOOK {
                h(site)
            }
        }
    }
    #[inline(never)]
    pub fn blocked() -> ! {
        #[allow(static_mut_refs)]
        unsafe {
            if let Some(h) = BLOCKED_HOOK {
                h()
            }
        }
        panic!("lock acquisition would block forever in the sequential model (self-deadlock)")
    }
    pub const SITE_MUTEX_LOCK: u32 = 100;
    pub const SITE_RW_READ: u32 = 101;
    pub const SITE_RW_WRITE: u32 = 102;
    pub const SITE_RW_TRY_WRITE: u32 = 103;
    pub const SITE_RW_TRY_READ: u32 = 104;
}

// ---------------------------------------------------------------- Mutex

pub struct Mutex<T: ?Sized> {
    locked: Cell<bool>,
    data: UnsafeCell<T>,
}
unsafe impl<T: ?Sized + Send> Send for Mutex<T> {}
unsafe impl<T: ?Sized + Send> Sync for Mutex<T> {}

pub const fn const_mutex<T>(val: T) -> Mutex<T> {
    Mutex::new(val)
}

impl<T> Mutex<T> {
    pub const fn new(val: T) -> Self {
        Mutex { locked: Cell::new(false), data: UnsafeCell::new(val) }
    }
    pub fn into_inner(self) -> T {
        self.data.into_inner()
    }
}
impl<T: ?Sized> Mutex<T> {
    pub fn lock(&self) -> MutexGuard<'_, T> {
        verif::yield_point(verif::SITE_MUTEX_LOCK);
        if self.locked.get() {
            verif::blocked();
        }
        self.locked.set(true);
        unsafe { verif::ACQUISITIONS = verif::ACQUISITIONS.wrapping_add(1) };
        MutexGuard { m: self }
    }
    pub fn try_lock(&self) -> Option<MutexGuard<'_, T>> {
        verif::yield_point(verif::SITE_MUTEX_LOCK);
        if self.locked.get() {
            None
        } else {
            self.locked.set(true);
            Some(MutexGuard { m: self })
        }
    }
    pub fn is_locked(&self) -> bool {
        self.locked.get()
    }
    pub fn get_mut(&mut self) -> &mut T {
        self.data.get_mut()
    }
}
impl<T: Default> Default for Mutex<T> {
    fn default() -> Self {
        Mutex::new(T::default())
    }
}
impl<T: ?Sized + std::fmt::Debug> std::fmt::Debug for Mutex<T> {
    fn fmt(&self, f: &mut std::fmt::Formatter<'_>) -> std::fmt::Result {
        f.write_str("Mutex { .. }")
    }
}
pub struct MutexGuard<'a, T: ?Sized> {
    m: &'a Mutex<T>,
}
impl<T: ?Sized> Deref for MutexGuard<'_, T> {
    type Target = T;
    fn deref(&self) -> &T {
        unsafe { &*self.m.data.get() }
    }
}
impl<T: ?Sized> DerefMut for MutexGuard<'_, T> {
    fn deref_mut(&mut self) -> &mut T {
        unsafe { &mut *self.m.data.get() }
    }
}
impl<T: ?Sized> Drop for MutexGuard<'_, T> {
    fn drop(&mut self) {
        self.m.locked.set(false);
    }
}

// ---------------------------------------------------------------- RwLock

pub struct RwLock<T: ?Sized> {
    /// -1: write-locked; n >= 0: n readers.
    state: Cell<isize>,
    data: UnsafeCell<T>,
}
unsafe impl<T: ?Sized + Send> Send for RwLock<T> {}
unsafe impl<T: ?Sized + Send + Sync> Sync for RwLock<T> {}

pub const fn const_rwlock<T>(val: T) -> RwLock<T> {
    RwLock::new(val)
}

impl<T> RwLock<T> {
    pub const fn new(val: T) -> Self {
        RwLock { state: Cell::new(0), data: UnsafeCell::new(val) }
    }
    pub fn into_inner(self) -> T {
        self.data.into_inner()
    }
}
impl<T: ?Sized> RwLock<T> {
    pub fn read(&self) -> RwLockReadGuard<'_, T> {
        verif::yield_point(verif::SITE_RW_READ);
        if self.state.get() < 0 {
            verif::blocked();
        }
        self.state.set(self.state.get() + 1);
        RwLockReadGuard { l: self }
    }
    pub fn try_read(&self) -> Option<RwLockReadGuard<'_, T>> {
        verif::yield_point(verif::SITE_RW_TRY_READ);
        if self.state.get() < 0 {
            None
        } else {
            self.state.set(self.state.get() + 1);
            Some(RwLockReadGuard { l: self })
        }
    }
    pub fn write(&self) -> RwLockWriteGuard<'_, T> {
        verif::yield_point(verif::SITE_RW_WRITE);
        if self.state.get() != 0 {
            verif::blocked();
        }
        self.state.set(-1);
        unsafe { verif::ACQUISITIONS = verif::ACQUISITIONS.wrapping_add(1) };
        RwLockWriteGuard { l: self }
    }
    pub fn try_write(&self) -> Option<RwLockWriteGuard<'_, T>> {
        verif::yield_point(verif::SITE_RW_TRY_WRITE);
        if self.state.get() != 0 {
            None
        } else {
            self.state.set(-1);
            unsafe { verif::ACQUISITIONS = verif::ACQUISITIONS.wrapping_add(1) };
            Some(RwLockWriteGuard { l: self })
        }
    }
    pub fn get_mut(&mut self) -> &mut T {
        self.data.get_mut()
    }
    pub fn is_locked(&self) -> bool {
        self.state.get() != 0
    }
}
impl<T: Default> Default for RwLock<T> {
    fn default() -> Self {
        RwLock::new(T::default())
    }
}
impl<T: ?Sized> std::fmt::Debug for RwLock<T> {
    fn fmt(&self, f: &mut std::fmt::Formatter<'_>) -> std::fmt::Result {
        f.write_str("RwLock { .. }")
    }
}
pub struct RwLockReadGuard<'a, T: ?Sized> {
    l: &'a RwLock<T>,
}
impl<T: ?Sized> Deref for RwLockReadGuard<'_, T> {
    type Target = T;
    fn deref(&self) -> &T {
        unsafe { &*self.l.data.get() }
    }
}
impl<T: ?Sized> Drop for RwLockReadGuard<'_, T> {
    fn drop(&mut self) {
        self.l.state.set(self.l.state.get() - 1);
    }
}
pub struct RwLockWriteGuard<'a, T: ?Sized> {
    l: &'a RwLock<T>,
}
impl<T: ?Sized> Deref for RwLockWriteGuard<'_, T> {
    type Target = T;
    fn deref(&self) -> &T {
        unsafe { &*self.l.data.get() }
    }
}
impl<T: ?Sized> DerefMut for RwLockWriteGuard<'_, T> {
    fn deref_mut(&mut self) -> &mut T {
        unsafe { &mut *self.l.data.get() }
    }
}
impl<T: ?Sized> Drop for RwLockWriteGuard<'_, T> {
    fn drop(&mut self) {
        self.l.state.set(0);
    }
}
