//! Verification stand-in for `colored` 2.2.0: `Colorize` methods wrap the text, `Display`
//! writes it unchanged.
#![allow(clippy::all)]
use std::fmt;
use std::ops::Deref;

#[derive(Clone, Debug, PartialEq, Eq)]
pub struct ColoredString {
    input: String,
}
impl Deref for ColoredString {
    type Target = str;
    fn deref(&self) -> &str {
        &self.input
    }
}
impl fmt::Display for ColoredString {
    fn fmt(&self, f: &mut fmt::Formatter<'_>) -> fmt::Result {
        f.write_str(&self.input)
    }
}
macro_rules! methods {
    ($($m:ident),*) => {
        pub trait Colorize {
            $( fn $m(self) -> ColoredString where Self: Sized; )*
        }
        impl<'a> Colorize for &'a str {
            $( fn $m(self) -> ColoredString { ColoredString { input: String::from(self) } } )*
        }
        impl Colorize for ColoredString {
            $( fn $m(self) -> ColoredString { self } )*
        }
    };
}
methods!(black, red, green, yellow, blue, magenta, purple, cyan, white, bright_black, bright_red,
         bright_green, bright_yellow, bright_blue, bright_magenta, bright_purple, bright_cyan,
         bright_white, normal, clear, bold, dimmed, italic, underline, blink, reversed, hidden,
         strikethrough);
pub mod control {
    pub fn set_override(_o: bool) {}
    pub fn unset_override() {}
}
