//! Verification stand-in for `tracing` 0.1.41: spans and events are no-ops.
#![allow(clippy::all)]

#[derive(Clone, Copy, Debug, PartialEq, Eq, PartialOrd, Ord, Hash)]
pub struct Level(u8);
impl Level {
    pub const ERROR: Level = Level(1);
    pub const WARN: Level = Level(2);
    pub const INFO: Level = Level(3);
    pub const DEBUG: Level = Level(4);
    pub const TRACE: Level = Level(5);
}

#[derive(Clone, Debug, Default)]
pub struct Span;
pub struct Entered<'a>(std::marker::PhantomData<&'a ()>);
pub struct EnteredSpan;
impl Span {
    pub fn none() -> Span {
        Span
    }
    pub fn current() -> Span {
        Span
    }
    pub fn entered(self) -> EnteredSpan {
        EnteredSpan
    }
    pub fn enter(&self) -> Entered<'_> {
        Entered(std::marker::PhantomData)
    }
    pub fn in_scope<F: FnOnce() -> T, T>(&self, f: F) -> T {
        f()
    }
}
impl EnteredSpan {
    pub fn exit(self) -> Span {
        Span
    }
}

#[macro_export]
macro_rules! span { ($($t:tt)*) => { $crate::Span }; }
#[macro_export]
macro_rules! trace_span { ($($t:tt)*) => { $crate::Span }; }
#[macro_export]
macro_rules! debug_span { ($($t:tt)*) => { $crate::Span }; }
#[macro_export]
macro_rules! info_span { ($($t:tt)*) => { $crate::Span }; }
#[macro_export]
macro_rules! warn_span { ($($t:tt)*) => { $crate::Span }; }
#[macro_export]
macro_rules! error_span { ($($t:tt)*) => { $crate::Span }; }
#[macro_export]
macro_rules! event { ($($t:tt)*) => { () }; }
#[macro_export]
macro_rules! trace { ($($t:tt)*) => { () }; }
#[macro_export]
macro_rules! debug { ($($t:tt)*) => { () }; }
#[macro_export]
macro_rules! info { ($($t:tt)*) => { () }; }
#[macro_export]
macro_rules! warn { ($($t:tt)*) => { () }; }
#[macro_export]
macro_rules! error { ($($t:tt)*) => { () }; }

pub mod field {
    pub fn debug<T>(t: T) -> T {
        t
    }
    pub fn display<T>(t: T) -> T {
        t
    }
}
