//! Verification stand-in for `lru` 0.13.0: bounded most-recently-used-first list under `K: Eq`.
//! Physical capacity MAXCAP (logical capacity = min(requested, MAXCAP)); loops over constants.
#![allow(clippy::all)]
use std::hash::Hash;
use std::num::NonZeroUsize;

pub const MAXCAP: usize = 4;

pub struct LruCache<K, V> {
    cap: usize,
    /// index 0 = most recently used; entries [0, len) are Some
    items: [Option<(K, V)>; MAXCAP],
    len: usize,
}
impl<K, V> std::fmt::Debug for LruCache<K, V> {
    fn fmt(&self, f: &mut std::fmt::Formatter<'_>) -> std::fmt::Result {
        f.write_str("LruCache { .. }")
    }
}
impl<K: Hash + Eq, V> LruCache<K, V> {
    pub fn new(cap: NonZeroUsize) -> Self {
        let c = if cap.get() > MAXCAP { MAXCAP } else { cap.get() };
        LruCache { cap: c, items: [const { None }; MAXCAP], len: 0 }
    }
    pub fn cap(&self) -> NonZeroUsize {
        NonZeroUsize::new(self.cap).unwrap()
    }
    pub fn len(&self) -> usize {
        self.len
    }
    pub fn is_empty(&self) -> bool {
        self.len == 0
    }
    fn find(&self, k: &K) -> Option<usize> {
        let mut i = 0;
        while i < MAXCAP {
            if let Some((kk, _)) = &self.items[i] {
                if *kk == *k {
                    return Some(i);
                }
            }
            i += 1;
        }
        None
    }
    /// shift entries [0, upto) one to the right (entry at `upto` is overwritten)
    fn shift_right(&mut self, upto: usize) {
        let mut i = MAXCAP - 1;
        while i > 0 {
            if i <= upto {
                self.items[i] = self.items[i - 1].take();
            }
            i -= 1;
        }
    }
    pub fn put(&mut self, k: K, v: V) -> Option<V> {
        if let Some(i) = self.find(&k) {
            let old = self.items[i].take().map(|p| p.1);
            self.shift_right(i);
            self.items[0] = Some((k, v));
            old
        } else {
            if self.len == self.cap {
                // evict least recently used (last)
                self.items[self.len - 1] = None;
                self.len -= 1;
            }
            let n = self.len;
            self.shift_right(n);
            self.items[0] = Some((k, v));
            self.len = n + 1;
            None
        }
    }
    pub fn contains(&self, k: &K) -> bool {
        self.find(k).is_some()
    }
    pub fn peek(&self, k: &K) -> Option<&V> {
        match self.find(k) {
            Some(i) => self.items[i].as_ref().map(|p| &p.1),
            None => None,
        }
    }
    /// most-recently-used first, like the real crate
    pub fn iter(&self) -> Iter<'_, K, V> {
        Iter { c: self, pos: 0 }
    }
}
pub struct Iter<'a, K, V> {
    c: &'a LruCache<K, V>,
    pos: usize,
}
impl<'a, K, V> Iterator for Iter<'a, K, V> {
    type Item = (&'a K, &'a V);
    fn next(&mut self) -> Option<Self::Item> {
        while self.pos < MAXCAP {
            let p = self.pos;
            self.pos += 1;
            if let Some((k, v)) = &self.c.items[p] {
                return Some((k, v));
            }
        }
        None
    }
}
