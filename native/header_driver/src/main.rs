//! Native oracle for C28. argv[1] = the plugin's OPERATION_REGEX literal (extracted from
//! swc_isograph_plugin/src/lib.rs by the check). stdin: hex-encoded literal texts, one per line.
//! Output per line:  C:<kind>|<type>|<field>  or  C:ERR      (the real compiler parser, parse_iso_literal)
//!                   P:<kind>|<type>|<field>  or  P:ERR      (the plugin's classification: the same regex crate and the
//!                                                            same three capture groups on raw.trim())
use common_lang_types::TextSource;
use intern::string_key::Intern;
use isograph_lang_parser::{IsoLiteralExtractionResult, parse_iso_literal};
use std::io::{self, BufRead};

fn unhex(s: &str) -> Vec<u8> {
    (0..s.len() / 2).map(|i| u8::from_str_radix(&s[2 * i..2 * i + 2], 16).unwrap()).collect()
}

fn main() {
    let pattern = std::env::args().nth(1).expect("regex literal");
    let re = regex::Regex::new(&pattern).unwrap();
    for line in io::stdin().lock().lines() {
        let line = line.unwrap();
        let text = match String::from_utf8(unhex(line.trim())) {
            Ok(t) => t,
            Err(_) => {
                println!("C:ERR P:ERR");
                continue;
            }
        };
        let ts = TextSource { relative_path_to_source_file: "f.ts".intern().into(), span: None };
        let c = match parse_iso_literal(text.clone(), "f.ts".intern().into(), Some("x".to_string()), ts) {
            Ok(IsoLiteralExtractionResult::EntrypointDeclaration(e)) => format!("entrypoint|{}|{}", e.item.parent_type.item, e.item.client_field_name.item),
            Ok(IsoLiteralExtractionResult::ClientFieldDeclaration(d)) => format!("field|{}|{}", d.item.parent_type.item, d.item.client_field_name.item),
            Ok(IsoLiteralExtractionResult::ClientPointerDeclaration(d)) => format!("pointer|{}|{}", d.item.parent_type.item, d.item.client_pointer_name.item),
            Err(e) => { if std::env::var("HD_DEBUG").is_ok() { eprintln!("{:?}", e); } "ERR".to_string() }
        };
        let p = match re.captures_iter(text.trim()).next() {
            Some(cap) => format!("{}|{}|{}", &cap[1], &cap[2], &cap[3]),
            None => "ERR".to_string(),
        };
        println!("C:{} P:{}", c, p);
    }
}
