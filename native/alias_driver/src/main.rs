//! Native oracle for C12: reads one JSON selection per line
//!   {"field":"f","args":[["a",VALUE],...]}   VALUE = {"k":"var","n":"x"} | {"k":"int","v":"-5"} | {"k":"bool","v":true}
//!        | {"k":"null"} | {"k":"enum","n":"E"} | {"k":"str","cp":[97,32,98]} | {"k":"obj","e":[["key",VALUE],...]}
//! and prints, as JSON, {"key": the response key computed by the real compiler code
//! (MergedScalarFieldSelection::normalization_alias -> get_aliased_mutation_field_name -> to_alias_str_chunk),
//! "norm_args": the JavaScript text the compiler emits for these arguments into the normalization AST
//! (artifact_content get_serialized_field_arguments, through the cfg(kani) verification wrapper)}.
//! Strings may be given raw ({"k":"str","raw":"a\\\"b"}: the text between the quotes as the iso lexer keeps it).
//! Built with RUSTFLAGS="--cfg kani".
use common_lang_types::{EmbeddedLocation, WithLocationPostfix};
use graphql_lang_types::NameValuePair;
use intern::string_key::Intern;
use isograph_lang_types::{ArgumentKeyAndValue, NonConstantValue};
use isograph_schema::MergedScalarFieldSelection;
use serde_json::Value;
use std::io::{self, BufRead};

fn value(v: &Value) -> NonConstantValue {
    match v["k"].as_str().unwrap() {
        "var" => NonConstantValue::Variable({ let n: common_lang_types::VariableName = v["n"].as_str().unwrap().intern().into(); n.into() }),
        "int" => NonConstantValue::Integer(v["v"].as_str().unwrap().parse::<i64>().unwrap()),
        "bool" => NonConstantValue::Boolean(v["v"].as_bool().unwrap()),
        "null" => NonConstantValue::Null,
        "enum" => NonConstantValue::Enum(v["n"].as_str().unwrap().intern().into()),
        "str" => {
            let s: String = match v.get("raw") {
                Some(r) => r.as_str().unwrap().to_string(),
                None => v["cp"].as_array().unwrap().iter().map(|c| char::from_u32(c.as_u64().unwrap() as u32).unwrap()).collect(),
            };
            NonConstantValue::String(s.intern().into())
        }
        "obj" => NonConstantValue::Object(
            v["e"].as_array().unwrap().iter().map(|e| NameValuePair {
                name: { let n: common_lang_types::ValueKeyName = e[0].as_str().unwrap().intern().into(); n.with_location(EmbeddedLocation::todo_generated()) },
                value: value(&e[1]).with_location(EmbeddedLocation::todo_generated()),
            }).collect(),
        ),
        k => panic!("unknown kind {k}"),
    }
}

fn main() {
    for line in io::stdin().lock().lines() {
        let line = line.unwrap();
        if line.trim().is_empty() {
            continue;
        }
        let j: Value = serde_json::from_str(&line).unwrap();
        let sel = MergedScalarFieldSelection {
            name: j["field"].as_str().unwrap().intern().into(),
            arguments: j["args"].as_array().unwrap().iter().map(|a| ArgumentKeyAndValue {
                key: a[0].as_str().unwrap().intern().into(),
                value: value(&a[1]),
            }).collect(),
            is_fallible: false,
        };
        let key = sel.normalization_alias().unwrap_or_else(|| sel.name.to_string());
        let norm_args = artifact_content::verif_hooks::serialized_field_arguments(&sel.arguments, 0);
        println!("{}", serde_json::json!({"key": key, "norm_args": norm_args}));
    }
}
