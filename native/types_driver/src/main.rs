//! Native oracle for C16 (variable type vs argument type). Built with RUSTFLAGS="--cfg kani" (verification re-export).
//! stdin: one JSON object per line {"var": TYPE, "arg": TYPE} with
//!   TYPE = {"n": "Name"} | {"nn": TYPE} (non-null; TYPE must be named or list) | {"l": TYPE, "loc": k} (list; loc = position of the item type)
//! Types are built as GraphQL type annotations (list item types carry an embedded location: file "v"/"a" for the variable /
//! the argument, span [loc, loc+1)) and converted by the real TypeAnnotationDeclaration::from_graphql_type_annotation.
//! stdout per line: true | false (variable_type_satisfies_argument_type(var, arg))
use common_lang_types::{EmbeddedLocation, Span, TextSource, WithEmbeddedLocation};
use graphql_lang_types::{GraphQLListTypeAnnotation, GraphQLNamedTypeAnnotation, GraphQLNonNullTypeAnnotation, GraphQLTypeAnnotation};
use intern::string_key::Intern;
use isograph_lang_types::TypeAnnotationDeclaration;
use isograph_schema::verif_hooks::variable_type_satisfies_argument_type;
use serde_json::Value;
use std::io::{self, BufRead};

fn ty(v: &Value, file: &str) -> GraphQLTypeAnnotation {
    if let Some(n) = v.get("n") {
        return GraphQLTypeAnnotation::Named(GraphQLNamedTypeAnnotation(n.as_str().unwrap().intern().into()));
    }
    if let Some(inner) = v.get("nn") {
        return GraphQLTypeAnnotation::NonNull(Box::new(match ty(inner, file) {
            GraphQLTypeAnnotation::Named(n) => GraphQLNonNullTypeAnnotation::Named(n),
            GraphQLTypeAnnotation::List(l) => GraphQLNonNullTypeAnnotation::List(*l),
            GraphQLTypeAnnotation::NonNull(_) => panic!("non-null of non-null"),
        }));
    }
    let inner = ty(&v["l"], file);
    let loc = v["loc"].as_u64().unwrap_or(0) as u32;
    let text_source = TextSource { relative_path_to_source_file: file.intern().into(), span: None };
    GraphQLTypeAnnotation::List(Box::new(GraphQLListTypeAnnotation(WithEmbeddedLocation::new(
        inner,
        EmbeddedLocation::new(text_source, Span { start: loc, end: loc + 1 }),
    ))))
}

fn main() {
    for line in io::stdin().lock().lines() {
        let line = line.unwrap();
        if line.trim().is_empty() {
            continue;
        }
        let j: Value = serde_json::from_str(&line).unwrap();
        let file_a = if j["same_file"].as_bool().unwrap_or(false) { "v" } else { "a" };
        let var = TypeAnnotationDeclaration::from_graphql_type_annotation(ty(&j["var"], "v"));
        let arg = TypeAnnotationDeclaration::from_graphql_type_annotation(ty(&j["arg"], file_a));
        println!("{}", variable_type_satisfies_argument_type(&var, &arg));
    }
}
