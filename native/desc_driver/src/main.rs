//! Native oracle for C13 (descriptions): stdin = hex-encoded description texts (one per line), argv[1] = indentation level.
//! stdout per line: hex of what the real `write_optional_description` appends. Built with RUSTFLAGS="--cfg kani".
use std::io::{self, BufRead};

fn main() {
    let indent: u8 = std::env::args().nth(1).and_then(|s| s.parse().ok()).unwrap_or(1);
    for line in io::stdin().lock().lines() {
        let line = line.unwrap();
        let bytes: Vec<u8> = (0..line.trim().len() / 2).map(|i| u8::from_str_radix(&line.trim()[2 * i..2 * i + 2], 16).unwrap()).collect();
        let text = String::from_utf8(bytes).unwrap();
        let mut out = String::new();
        artifact_content::verif_hooks::write_optional_description(Some(&text), &mut out, indent);
        println!("{}", out.bytes().map(|b| format!("{:02x}", b)).collect::<String>());
    }
}
