//! Native oracle for C30 (block string descriptions). stdin: one hex-encoded block string token per line (`"""..."""`).
//! The token is put in front of `type Q { a: Int }` and parsed with the real parse_schema (public API).
//! stdout per line: {"description": "<value the parser read>"} | {"error": true}
use common_lang_types::TextSource;
use graphql_lang_types::GraphQLTypeSystemDefinition;
use graphql_schema_parser::parse_schema;
use intern::string_key::Intern;
use std::io::{self, BufRead};

fn unhex(s: &str) -> Vec<u8> {
    (0..s.len() / 2).map(|i| u8::from_str_radix(&s[2 * i..2 * i + 2], 16).unwrap()).collect()
}

fn main() {
    for line in io::stdin().lock().lines() {
        let line = line.unwrap();
        if line.trim().is_empty() {
            continue;
        }
        let token = String::from_utf8(unhex(line.trim())).unwrap();
        let source = format!("{token}\ntype Q {{ a: Int }}\n");
        let ts = TextSource { relative_path_to_source_file: "s.graphql".intern().into(), span: None };
        let out = match parse_schema(&source, ts) {
            Ok(doc) => match doc.0.first().map(|d| &d.item) {
                Some(GraphQLTypeSystemDefinition::ObjectTypeDefinition(o)) => match &o.description {
                    Some(d) => serde_json::json!({"description": d.item.to_string()}),
                    None => serde_json::json!({"description": null}),
                },
                _ => serde_json::json!({"error": true}),
            },
            Err(_) => serde_json::json!({"error": true}),
        };
        println!("{}", out);
    }
}
