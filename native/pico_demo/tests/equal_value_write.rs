//! Native demonstration for the C02 write-path finding: an equal-value write that follows an
//! unrelated change must not re-execute a memoized reader.
use std::sync::atomic::{AtomicUsize, Ordering};

use pico::{Database, SourceId, Storage};
use pico_macros::{Db, Source, memo};

static RUNS: AtomicUsize = AtomicUsize::new(0);

#[derive(Db, Default)]
struct TestDb {
    storage: Storage<Self>,
}

#[derive(Debug, Clone, PartialEq, Eq, Source)]
struct Input {
    #[key]
    key: &'static str,
    value: u32,
}

#[memo]
fn double(db: &TestDb, id: SourceId<Input>) -> u32 {
    RUNS.fetch_add(1, Ordering::SeqCst);
    db.get(id).value * 2
}

#[test]
fn equal_value_write_after_unrelated_change_does_not_rerun() {
    let mut db = TestDb::default();
    let a = db.set(Input { key: "a", value: 1 });
    db.set(Input { key: "b", value: 1 });
    assert_eq!(*double(&db, a), 2);
    assert_eq!(RUNS.load(Ordering::SeqCst), 1);
    db.set(Input { key: "b", value: 2 }); // unrelated change: advances the epoch
    db.set(Input { key: "a", value: 1 }); // equal-value write
    assert_eq!(*double(&db, a), 2);
    assert_eq!(RUNS.load(Ordering::SeqCst), 1, "double() was re-executed although nothing it read changed");
}
