//! Native oracle for the query-text module checks (C13 clause B, C09 clause B). Built with RUSTFLAGS="--cfg kani" so that the
//! verification re-exports are visible.
//! stdin: one JSON object per line: {"format":"pretty"|"compact","sel":[NODE,...]} with NODE / VALUE as in vars_driver plus
//!   {"k":"str","raw":"..."} : a string literal given as the text between the quotes, as the iso lexer keeps it.
//! stdout per line: {"text": "<query text>", "module": "<content of the query_text module>" | null}
//! `module` needs the feature `helper` (artifact_content::verif_hooks::query_text_file_content).
use common_lang_types::{EmbeddedLocation, WithLocationPostfix};
use graphql_lang_types::NameValuePair;
use graphql_network_protocol::GraphQLOperationKind;
use graphql_network_protocol::verif_hooks::generate_query_text;
use intern::string_key::Intern;
use isograph_lang_types::{ArgumentKeyAndValue, NonConstantValue};
use isograph_schema::{
    ConcreteTargetEntityName, Format, MergedInlineFragmentSelection, MergedLinkedFieldSelection, MergedScalarFieldSelection,
    MergedSelectionMap, MergedServerSelection, NameAndArguments, NormalizationKey, WrappedMergedSelectionMap,
};
use serde_json::Value;
use std::io::{self, BufRead};

fn value(v: &Value) -> NonConstantValue {
    match v["k"].as_str().unwrap() {
        "var" => NonConstantValue::Variable({
            let n: common_lang_types::VariableName = v["n"].as_str().unwrap().intern().into();
            n.into()
        }),
        "int" => NonConstantValue::Integer(v["v"].as_str().unwrap().parse::<i64>().unwrap()),
        "bool" => NonConstantValue::Boolean(v["v"].as_bool().unwrap()),
        "null" => NonConstantValue::Null,
        "str" => NonConstantValue::String(v["raw"].as_str().unwrap().intern().into()),
        "enum" => NonConstantValue::Enum(v["n"].as_str().unwrap().intern().into()),
        "obj" => NonConstantValue::Object(
            v["e"].as_array().unwrap().iter().map(|e| NameValuePair {
                name: {
                    let n: common_lang_types::ValueKeyName = e[0].as_str().unwrap().intern().into();
                    n.with_location(EmbeddedLocation::todo_generated())
                },
                value: value(&e[1]).with_location(EmbeddedLocation::todo_generated()),
            }).collect(),
        ),
        k => panic!("unknown kind {k}"),
    }
}

fn args(j: &Value) -> Vec<ArgumentKeyAndValue> {
    j.as_array().map(|a| a.iter().map(|x| ArgumentKeyAndValue { key: x[0].as_str().unwrap().intern().into(), value: value(&x[1]) }).collect()).unwrap_or_default()
}

fn build(nodes: &Value) -> MergedSelectionMap {
    let mut map = MergedSelectionMap::new();
    for n in nodes.as_array().unwrap() {
        match n["t"].as_str().unwrap() {
            "scalar" => {
                let name = n["name"].as_str().unwrap().intern().into();
                let a = args(&n["args"]);
                map.insert(
                    NormalizationKey::ServerField(NameAndArguments { name, arguments: a.clone() }),
                    MergedServerSelection::ScalarField(MergedScalarFieldSelection { name, arguments: a, is_fallible: false }),
                );
            }
            "linked" => {
                let name = n["name"].as_str().unwrap().intern().into();
                let a = args(&n["args"]);
                map.insert(
                    NormalizationKey::ServerField(NameAndArguments { name, arguments: a.clone() }),
                    MergedServerSelection::LinkedField(MergedLinkedFieldSelection {
                        is_fallible: false,
                        name,
                        selection_map: build(&n["children"]),
                        arguments: a,
                        concrete_target_entity_name: ConcreteTargetEntityName::Abstract,
                    }),
                );
            }
            "fragment" => {
                let on = n["on"].as_str().unwrap().intern().into();
                map.insert(
                    NormalizationKey::InlineFragment(on),
                    MergedServerSelection::InlineFragment(MergedInlineFragmentSelection { type_to_refine_to: on, selection_map: build(&n["children"]) }),
                );
            }
            t => panic!("unknown node {t}"),
        }
    }
    map
}

fn main() {
    for line in io::stdin().lock().lines() {
        let line = line.unwrap();
        if line.trim().is_empty() {
            continue;
        }
        let j: Value = serde_json::from_str(&line).unwrap();
        let map = build(&j["sel"]);
        let format = match j["format"].as_str().unwrap() {
            "pretty" => Format::Pretty,
            _ => Format::Compact,
        };
        let text = generate_query_text(
            GraphQLOperationKind::Query,
            "Q".intern().into(),
            &WrappedMergedSelectionMap::new(map),
            std::iter::empty(),
            format,
        );
        #[cfg(feature = "helper")]
        let module = Value::String(artifact_content::verif_hooks::query_text_file_content(text.to_string()));
        #[cfg(not(feature = "helper"))]
        let module = Value::Null;
        println!("{}", serde_json::json!({"text": text.to_string(), "module": module}));
    }
}
