//! Native oracle for C31. stdin: one JSON object per line {"text": "...", "start": n, "end": n} (byte offsets, no outer span).
//! optional "outer": n = start of an outer span (Some(Span { start: n, end: text length })); start/end are then relative to it.
//! stdout per line: {"out": "<rendered excerpt>", "row": n|null, "col": n|null} or {"panic": true}
use common_lang_types::{Span, text_with_carats};
use serde_json::Value;
use std::io::{self, BufRead};

fn main() {
    std::panic::set_hook(Box::new(|_| {}));
    for line in io::stdin().lock().lines() {
        let line = line.unwrap();
        if line.trim().is_empty() {
            continue;
        }
        let j: Value = serde_json::from_str(&line).unwrap();
        let text = j["text"].as_str().unwrap().to_string();
        let (s, e) = (j["start"].as_u64().unwrap() as u32, j["end"].as_u64().unwrap() as u32);
        let outer = j.get("outer").and_then(|o| o.as_u64()).map(|o| Span { start: o as u32, end: text.len() as u32 });
        let r = std::panic::catch_unwind(move || {
            let (out, pos) = text_with_carats(&text, outer, Span { start: s, end: e }, false);
            (out, pos.map(|(r, c)| (r.0.get(), c.0.get())))
        });
        match r {
            Ok((out, pos)) => println!("{}", serde_json::json!({"out": out, "row": pos.map(|p| p.0), "col": pos.map(|p| p.1)})),
            Err(_) => println!("{}", serde_json::json!({"panic": true})),
        }
    }
}
