//! Native oracle for C23 (semantic token pieces). Built with RUSTFLAGS="--cfg kani" (verification re-export).
//! stdin: one JSON object per line {"text": "...", "literal_start": n, "start": n, "end": n} (byte offsets; start/end relative to the literal)
//! stdout per line: [[absolute_byte_start, length], ...] as returned by the real absolutize_relative_token
use common_lang_types::Span;
use isograph_lsp::verif_hooks::verif_token_lines;
use serde_json::Value;
use std::io::{self, BufRead};

fn main() {
    for line in io::stdin().lock().lines() {
        let line = line.unwrap();
        if line.trim().is_empty() {
            continue;
        }
        let j: Value = serde_json::from_str(&line).unwrap();
        let text = j["text"].as_str().unwrap();
        let pieces = verif_token_lines(
            text,
            j["literal_start"].as_u64().unwrap() as u32,
            Span { start: j["start"].as_u64().unwrap() as u32, end: j["end"].as_u64().unwrap() as u32 },
        );
        println!("{}", serde_json::json!(pieces));
    }
}
