//! Native oracle for C29 (block string values of the GraphQL syntax crate). stdin: one hex-encoded block string token per
//! line. The token becomes the argument of a directive: `type Q @d(a: <token>) { a: Int }`, parsed with the real
//! graphql_syntax::parse_schema_document (public API). stdout per line: {"value": "..."} | {"error": true}
use common::SourceLocationKey;
use graphql_syntax::{ConstantValue, TypeSystemDefinition, parse_schema_document};
use std::io::{self, BufRead};

fn unhex(s: &str) -> Vec<u8> {
    (0..s.len() / 2).map(|i| u8::from_str_radix(&s[2 * i..2 * i + 2], 16).unwrap()).collect()
}

fn main() {
    for line in io::stdin().lock().lines() {
        let line = line.unwrap();
        if line.trim().is_empty() {
            continue;
        }
        let token = String::from_utf8(unhex(line.trim())).unwrap();
        let source = format!("type Q @d(a: {token}) {{ a: Int }}\n");
        let out = match parse_schema_document(&source, SourceLocationKey::generated()) {
            Ok(doc) => match doc.definitions.first() {
                Some(TypeSystemDefinition::ObjectTypeDefinition(o)) => {
                    match o.directives.first().and_then(|d| d.arguments.as_ref()).and_then(|a| a.items.first()).map(|a| &a.value) {
                        Some(ConstantValue::String(node)) => serde_json::json!({"description": node.value.to_string()}),
                        _ => serde_json::json!({"error": true}),
                    }
                }
                _ => serde_json::json!({"error": true}),
            },
            Err(_) => serde_json::json!({"error": true}),
        };
        println!("{}", out);
    }
}
