//! Native oracle for C33: reads hex-encoded texts (one per line) and prints, per line,
//! `<try_sign_file result hex or "-"> <is_valid_signature(signed)> <is_valid_signature(input)> <is_signed(input)>`
//! computed by the real signedsource crate (real md5, real regex).
use std::io::{self, BufRead};

fn unhex(s: &str) -> Vec<u8> {
    (0..s.len() / 2).map(|i| u8::from_str_radix(&s[2 * i..2 * i + 2], 16).unwrap()).collect()
}
fn hex(b: &[u8]) -> String {
    b.iter().map(|x| format!("{:02x}", x)).collect()
}
fn main() {
    for line in io::stdin().lock().lines() {
        let line = line.unwrap();
        let line = line.trim();
        let bytes = unhex(line);
        let text = match String::from_utf8(bytes) {
            Ok(t) => t,
            Err(_) => {
                println!("ERR not utf8");
                continue;
            }
        };
        let signed = signedsource::try_sign_file(&text);
        let (s_hex, s_valid) = match &signed {
            Some(s) => (hex(s.as_bytes()), signedsource::is_valid_signature(s)),
            None => ("-".to_string(), false),
        };
        println!("{} {} {} {}", s_hex, s_valid, signedsource::is_valid_signature(&text), signedsource::is_signed(&text));
    }
}
