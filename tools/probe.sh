#!/bin/bash
# usage: probe.sh <crate> <harness> [timeout_s] [extra cargo-kani args...]  -> summary line(s)
crate=$1; h=$2; to=${3:-300}; shift 3
cd /verif/kani/$crate || exit 2
cp /repo/Cargo.lock . 2>/dev/null
log=/verif/build/probe_$h.log
( ulimit -v ${PROBE_MEM_KB:-16000000}; /usr/bin/time -f "wall=%es rss=%MkB" timeout $to env CARGO_NET_OFFLINE=true cargo kani --target-dir /verif/build/tp_$h --harness $h "$@" > $log 2>&1 )
echo "== $h: $(grep -E '^VERIFICATION|wall=' $log | tr '\n' ' ') symex=$(grep -E 'Runtime Symex' $log | tail -1) $(grep -E 'Failed Checks|cover properties|ran out of memory|^error' $log | head -5 | tr '\n' ';')"
