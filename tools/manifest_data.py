HOOK_COMMITS = ["5361467", "86b347b"]

CHECKS = {
 "C06": dict(engine="K", category="model_checking",
   text="Bounded model checking of the real atomic_arena.rs with CBMC: index arithmetic decided for every u32 index (no bound), sequential add/get/len/drop for small symbolic runs across the first bucket boundary, and two-thread schedules in which the second thread's complete operation is placed by a symbolic choice at every atomic operation / lock acquisition of the first (includes both adds racing to allocate a bucket). The solver decides all element values and all placements; a counterexample is replayed natively before it is reported.",
   design_ref="DESIGN.md section 4 C06",
   note="Trusted: Kani/CBMC; sequential parking_lot stand-in (mutual exclusion contract); atomics sequentially consistent (no weak-memory effects); only nested interleavings (one operation completes inside a window of the other), 2 threads, <= 130 elements; allocator never fails.",
   technique="bounded model checking (Kani/CBMC SAT) of compiled Rust, symbolic preemption points"),

 "C23": dict(engine="K", category="other",
   text="Bounded-exhaustive decision by CBMC over the compiled isograph_lsp crate: the three position conversion kernels (delta_line_delta_start, char_index_to_position, get_index_of_line_char) agree with the LSP definition of a position (line breaks before, UTF-16 code units since the line start) for every valid UTF-8 text of at most 4 bytes (quick) / 6 bytes (thorough) and every character-boundary offset. This is the level a solver can reach: the kernels are where byte/char/UTF-16 confusion lives; the handlers that call them need the database.",
   design_ref="DESIGN.md section 4 C23",
   note="Trusted: Kani/CBMC; the oracle in the harness (LSP spec); texts beyond 6 bytes, token-length computation in semantic_tokens.rs, request handlers and ranges assembled from parsed literals are outside the claim.",
   technique="bounded model checking (Kani/CBMC SAT) of compiled Rust against a specification oracle"),

 "C33": dict(engine="S", category="other",
   text="SMT decision (z3, cross-checked with z3 4.8.12 and cvc5) over an encoding regenerated on every run from signedsource/src/lib.rs: regex literal, tokens, replace/replacen, find, slice offsets and the un-signing expression are extracted and translated; md5 is an uninterpreted function. For every printable-ASCII text of the listed lengths (one and two token occurrences fit) the solver decides (Q1) whether a signed text can fail to verify and (Q2) whether a single-byte edit outside the signature can leave a signed file valid. Models are replayed with the real crate (real md5) before anything is reported; the translation is validated against the real crate on the repository's own test inputs plus probes on every run.",
   design_ref="DESIGN.md section 4 C33",
   note="Trusted: the narrow translator (fails closed on any source shape it does not recognise), z3; md5 collision resistance and absence of digest fixed points are assumptions; lengths are the listed ones; one known finding (stale signature before the token) is excluded by key and everything outside it is still decided.",
   technique="SMT (bit-vector) encoding regenerated from source, uninterpreted hash, counterexamples replayed natively"),

 "C12": dict(engine="S", category="other",
   text="SMT decision over an encoding regenerated on every run from the alias templates of the compiler (to_alias_str_chunk, get_aliased_mutation_field_name) and of the runtime (cache.ts getArgumentValueChunk / getNetworkResponseKey): injectivity of the response key, legality as a GraphQL name, and compiler/runtime agreement, for every argument shape within the bound with all names, integers, booleans and string characters symbolic. Four known-finding classes (admitted in source comments) are each witnessed and replayed against the real Rust crates and the real TypeScript function text in node, then excluded; every residual query must be unsat on cvc5, z3 5.1 and z3 4.8.12.",
   design_ref="DESIGN.md section 4 C12",
   note="Trusted: the narrow template extractor (fails closed), the composition lemmas stated in the evidence (keys are concatenations of the same pieces on both sides), solvers; bounds: <= 1 argument per selection in the injectivity pairs (quick), names <= 4 chars, strings <= 2 characters, objects <= 1 entry; Float/List values, integers beyond 2^53 and string escaping in the artifact are outside the claim.",
   technique="SMT (strings) encoding regenerated from Rust and TypeScript source, per-shape queries, solver portfolio, native replay on both implementations"),

 "C32": dict(engine="K", category="other",
   text="Bounded model checking (CBMC) of the real #[derive(ResolvePosition)] expansions on the real iso-literal AST types: for one hand-built client field declaration whose spans are all symbolic (constrained only by the parser's nesting invariant) and every cursor offset, resolve() returns the innermost node containing the cursor, identified by address, with the chain of enclosing nodes as parents. The four existing tests use a toy tree; this exercises the generated code for the production types.",
   design_ref="DESIGN.md section 4 C32",
   note="Trusted: Kani/CBMC; one AST shape (depth 2, 2 selections, 1 variable); spans <= 1000; touching sibling spans excluded; other declaration kinds, arguments and directives outside the bound.",
   technique="bounded model checking (Kani/CBMC SAT) of macro-generated Rust with symbolic spans"),
}

NA_COMMON = "whole-compiler behaviour: needs IsographDatabase (#[memo] over TypeId hashing), std HashMap, file system and format!-built text, none of which Kani/CBMC can decide here (DESIGN.md section 2, probes P2/P4/P5/P8/P9)"
NOT_APPLICABLE = {p: "not yet built in this revision (see DESIGN.md)" for p in
  ["C01","C02","C03","C04","C05","C07","C16","C24","C28","C31"]}
NOT_APPLICABLE.update({
 "C08": NA_COMMON,
 "C09": "observable is the JS-evaluated artifact text of a whole compile validated by a GraphQL implementation; printers are format!-based and need a real compile's merged selection map",
 "C10": "needs compiler output plus the TypeScript runtime (cache.ts/read.ts); no unit a solver can encode",
 "C11": "two format!-based printers over a MergedSelectionMap produced by the whole compiler; comparing them needs parsing both texts",
 "C13": "needs a TypeScript/JSON parser over the output of a whole compile",
 "C14": "quantifies over process hash seeds and directory order of whole compiles; HashMap iteration order is exactly what CBMC cannot model here (probe P5)",
 "C15": "relational property over pairs of whole compiles; the merge code takes an IsographDatabase",
 "C17": "file-system effects of the whole compile",
 "C18": "FileSystemState is nested std HashMaps with md5 content hashes and PathBuf joins applied through std::fs; a single HashSet<u8> insert is undecided after 15 min (probe P5)",
 "C19": "same units as C18 plus file-system fault injection",
 "C20": "notify events, real file system, whole recompiles",
 "C21": "server loop plus database histories (same blockers as C08)",
 "C22": "format_extraction is a #[memo] over the database and needs the parser on its own string output",
 "C25": "index composition across artifacts of a whole compile",
 "C26": "md5/sha256 of format!-built text inside the compile; nothing for a solver to decide short of hash preimages",
 "C27": "compares type artifacts of a whole compile",
 "C29": "needs a reference grammar implementation as oracle over a 5.6 kLoC logos/recursive-descent parser; no bounded unit whose oracle fits in a harness",
 "C30": "same as C29 (whole SDL grammar; description cleaning is string building)",
})
