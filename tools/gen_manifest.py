#!/usr/bin/env python3
"""Regenerates MANIFEST.json from the tables below (keeps it schema-valid at all times)."""
import json, os, sys
HERE = os.path.dirname(os.path.dirname(os.path.abspath(__file__)))
sys.path.insert(0, os.path.join(HERE, "tools"))
from manifest_data import CHECKS, NOT_APPLICABLE, HOOK_COMMITS

def check(pid, c):
    return {
        "property_id": pid,
        "quick_cmd": "VERIF_TIER=quick ./check %s" % pid,
        "thorough_cmd": "VERIF_TIER=thorough ./check %s" % pid,
        "evidence_file": "/verif/evidence/%s.json" % pid,
        "replay_cmd_template": "./check %s --replay {path}" % pid,
        "engine": c["engine"],
        "level_claimed": {"category": c["category"], "text": c["text"], "design_ref": c["design_ref"]},
        "level_note": c["note"],
        "technique": c["technique"],
    }

m = {
    "version": 1,
    "setup_cmd": "./setup.sh",
    "hooks": {
        "guard": "cfg(kani)",
        "enable": "cargo kani sets --cfg kani for every crate it compiles (no ordinary cargo build/test does); the harness crates under /verif/kani/* depend on /repo's crates by path, so the hooks are on exactly in the verification builds. The native replay drivers that call crate-private functions (native/vars_driver, alias_driver, desc_driver, qt_driver, types_driver, tokens_driver: C09, C12, C13, C16, C23) are built with RUSTFLAGS=--cfg kani into build/native_hooks to see the same wrappers",
        "baseline_off_cmd": "cd /repo && cargo test --workspace --no-fail-fast --offline",
        "source_commits": HOOK_COMMITS,
        "add_only": True,
    },
    "engines": [
        {"name": "K", "path": "/verif/lib/kani.py", "serves_properties": [p for p, c in CHECKS.items() if c["engine"] == "K"],
         "kind_free_text": "Kani 0.68 / CBMC 6.11 bounded model checking of the real crates (path dependencies on /repo), harness crates under /verif/kani, sequential stand-ins for lock/once/container crates under /verif/shims"},
        {"name": "S", "path": "/verif/lib/smt.py", "serves_properties": [p for p, c in CHECKS.items() if c["engine"] == "S"],
         "kind_free_text": "SMT encodings (z3, cross-checked with cvc5) regenerated on every run from the source text of the named functions; models replayed natively"},
    ],
    "checks": [check(p, c) for p, c in sorted(CHECKS.items())],
    "notes": "All claims are bounded (see evidence files and DESIGN.md). Exit 2 = inconclusive (timeout, OOM, encoding not regenerable, counterexample that does not replay natively) and is never reported as success.",
    "not_applicable": [{"property_id": p, "reason": r} for p, r in sorted(NOT_APPLICABLE.items())],
}
json.dump(m, open(os.path.join(HERE, "MANIFEST.json"), "w"), indent=1)
print("wrote MANIFEST.json:", len(m["checks"]), "checks,", len(m["not_applicable"]), "not applicable")
