#!/bin/bash
# Runs every registered quick check sequentially on the current tree and reports exit codes.
cd /verif
for p in C02 C05 C06 C07 C09 C12 C13 C16 C23 C28 C29 C30 C31 C32 C33; do
  s=$(date +%s)
  VERIF_TIER=${1:-quick} ./check $p > build/regen_$p.log 2>&1
  echo "$p rc=$? $(( $(date +%s) - s ))s"
done
