#!/bin/bash
# usage: confirm_seed.sh <worktree> <seed_dir> <cargo package> <demo test filter>
# Confirms: (1) with patch: existing tests of the package pass; (2) with patch + demo: demo fails; (3) demo without patch: passes.
wt=$1; sd=$2; pkg=$3; filt=$4
export CARGO_TARGET_DIR=$wt/target CARGO_NET_OFFLINE=true
cd $wt || exit 2
git checkout -q -- . ; git clean -fdq -e target -e _mutation
git apply $sd/patch.diff || { echo "patch does not apply"; exit 2; }
r1=$(cargo test -p $pkg --offline 2>&1 | grep -E "^test result" | tr '\n' ' ')
echo "[1] existing tests with patch: $r1"
git apply $sd/demo.patch || { echo "demo does not apply"; exit 2; }
r2=$(cargo test -p $pkg --offline $filt 2>&1 | grep -E "^test result" | tr '\n' ' ')
echo "[2] demo with patch: $r2"
git checkout -q -- . ; git apply $sd/demo.patch
r3=$(cargo test -p $pkg --offline $filt 2>&1 | grep -E "^test result" | tr '\n' ' ')
echo "[3] demo without patch: $r3"
git checkout -q -- . ; git clean -fdq -e target -e _mutation
