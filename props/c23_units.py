"""C23 pre-stage (Engine S): the units of a semantic token piece.

absolutize_relative_token yields, per line piece of a token, `absolute_char_start` (a byte offset: the next step slices the
page with it) and `len` (the LSP `length`: UTF-16 code units). The expressions for `len` and for the running offset are
re-read from source and must be one of the three known measures of a &str (bytes / chars / UTF-16 units); the token is
modelled as up to 2 pieces of up to 3 characters with symbolic UTF-8 widths; z3 decides whether a piece's start can differ
from the byte offset of its first character or its length from its number of UTF-16 units. Models are replayed through the
real function (native/tokens_driver, hooks on). CBMC decides the same kernel for every text up to 3 (4) bytes, but its cost
depends on the code variant (chars().count() exhausts 14 GB), so this cheap stage runs first."""
import os, re, json, subprocess, shutil
import z3
from common import (log, REPLAYS, REPO, BUILD, run, env_offline)
from smt import Query, Inconclusive, read_repo, extract_fn, NATIVE

F_SRC = "crates/isograph_lsp/src/semantic_tokens.rs"
MEASURES = {"line_text.len()": "bytes", "line_text.chars().count()": "chars", "line_text.encode_utf16().count()": "utf16"}
WIDTH_CHAR = {1: "a", 2: "\u00e9", 3: "\u4e2d", 4: "\U0001F600"}


def extract():
    fn = re.sub(r"\s+", " ", re.sub(r"//[^\n]*", "", extract_fn(read_repo(F_SRC), "absolutize_relative_token")))
    def need(m, what):
        if not m:
            raise Inconclusive("encoding not regenerable: " + what)
        return m
    need(re.search(r"span_content \.split_inclusive\('\\n'\) \.scan\(0, move \|iterated_so_far_within_token, line_text\| \{", fn), "split_inclusive / scan frame of absolutize_relative_token")
    need(re.search(r"absolute_char_start: iso_literal_extraction_span\.start \+ relative_token\.location\.span\.start \+ \*iterated_so_far_within_token,", fn), "absolute_char_start expression")
    m1 = need(re.search(r"len: ([^,]+?) as u32,", fn), "len expression")
    m2 = need(re.search(r"\*iterated_so_far_within_token \+= ([^;]+?) as u32;", fn), "running offset increment")
    X = {"len": MEASURES.get(m1.group(1).strip()), "advance": MEASURES.get(m2.group(1).strip())}
    if X["len"] is None or X["advance"] is None:
        raise Inconclusive("encoding not regenerable: len = %r / advance = %r are not one of %s" % (m1.group(1), m2.group(1), sorted(MEASURES)))
    return X


def measure(kind, ws, nl):
    """ws: widths of the characters of the piece; nl: 1 if the piece ends with a line break (one byte, one unit, one char)"""
    if kind == "bytes":
        return z3.Sum(ws) + nl if ws else z3.IntVal(0) + nl
    if kind == "chars":
        return z3.IntVal(len(ws)) + nl
    return z3.Sum([z3.If(w == 4, 2, 1) for w in ws]) + nl if ws else z3.IntVal(0) + nl


def build_driver():
    d = os.path.join(NATIVE, "tokens_driver")
    shutil.copyfile(os.path.join(REPO, "Cargo.lock"), os.path.join(d, "Cargo.lock"))
    rc, out, wall, to = run(["cargo", "build", "--release"], cwd=d, timeout=2400, env=env_offline({"CARGO_TARGET_DIR": os.path.join(BUILD, "native_hooks"), "RUSTFLAGS": "--cfg kani"}))
    if rc != 0:
        raise Inconclusive("native driver tokens_driver does not build against /repo (hooks on): " + out[-800:])
    return os.path.join(BUILD, "native_hooks", "release", "tokens_driver")


def real_pieces(binary, text, s, e):
    p = subprocess.run([binary], input=json.dumps({"text": text, "literal_start": 0, "start": s, "end": e}) + "\n", capture_output=True, text=True, timeout=60)
    if p.returncode != 0:
        raise Inconclusive("tokens_driver failed: " + p.stderr[-300:])
    return [tuple(x) for x in json.loads(p.stdout.splitlines()[0])]


def expected_pieces(widths_per_piece, base):
    out, at = [], base
    for k, ws in enumerate(widths_per_piece):
        nl = 1 if k + 1 < len(widths_per_piece) else 0
        out.append((at, sum(2 if w == 4 else 1 for w in ws) + nl))
        at += sum(ws) + nl
    return out


def make(widths_per_piece, prefix_w):
    text = WIDTH_CHAR[prefix_w] if prefix_w else ""
    base = len(text.encode())
    body = "\n".join("".join(WIDTH_CHAR[w] for w in ws) for ws in widths_per_piece)
    return text + body, base, base + len(body.encode())


def pre_stage(prop="C23"):
    res = dict(violations=[], infra=[], cov={})
    os.makedirs(os.path.join(REPLAYS, prop), exist_ok=True)
    try:
        binary = build_driver()
        X = extract()
        n_valid = 0
        # translator validation: the extracted measures reproduce the real pieces on probes
        for wpp, pw in [([[1, 1]], 0), ([[1], [1, 1]], 1), ([[2, 1]], 0), ([[1, 3], [2]], 2), ([[4], [1]], 0), ([[], [1]], 1)]:
            text, s, e = make(wpp, pw)
            real = real_pieces(binary, text, s, e)
            wpp_eff = wpp if wpp[-1] or len(wpp) == 1 else wpp[:-1] if False else wpp
            def conc(kind, ws, nl):
                return {"bytes": sum(ws), "chars": len(ws), "utf16": sum(2 if w == 4 else 1 for w in ws)}[kind] + nl
            model, at = [], s
            pieces = [ws for ws in wpp]
            for k, ws in enumerate(pieces):
                nl = 1 if k + 1 < len(pieces) else 0
                if not ws and not nl:
                    continue           # split_inclusive yields no empty trailing piece
                model.append((at, conc(X["len"], ws, nl)))
                at += conc(X["advance"], ws, nl)
            if model != real:
                raise Inconclusive("translator validation failed on %r [%d,%d): model %r real %r" % (text, s, e, model, real))
            n_valid += 1
        queries, n_unsat = [], 0
        for npieces in (1, 2):
            for n0 in range(0, 4):
                for n1 in (range(1, 3) if npieces == 2 else [0]):
                    q = Query("C23_units_p%d_%d_%d" % (npieces, n0, n1), solver_timeout_s=60, simple=True)
                    w0 = [z3.Int("w0_%d" % i) for i in range(n0)]
                    w1 = [z3.Int("w1_%d" % i) for i in range(n1)]
                    for w in w0 + w1:
                        q.add(w >= 1, w <= 4)
                    if npieces == 1 and n0 == 0:
                        continue
                    nl0 = 1 if npieces == 2 else 0
                    bad = [measure(X["len"], w0, nl0) != measure("utf16", w0, nl0)]
                    if npieces == 2:
                        bad.append(measure(X["advance"], w0, nl0) != measure("bytes", w0, nl0))      # start of the second piece
                        bad.append(measure(X["len"], w1, 0) != measure("utf16", w1, 0))
                    q.add(z3.Or(*bad))
                    r = q.check(cross_check=False)
                    queries.append(q.summary())
                    if r == "unsat":
                        n_unsat += 1
                        continue
                    if r != "sat":
                        raise Inconclusive("solver answered %s" % r)
                    m = q.model()
                    ev = lambda t: m.eval(t, model_completion=True).as_long()
                    wpp = [[ev(w) for w in w0]] + ([[ev(w) for w in w1]] if npieces == 2 else [])
                    text, s, e = make(wpp, 0)
                    real = real_pieces(binary, text, s, e)
                    want = expected_pieces(wpp, s)
                    if real == want:
                        res["infra"].append("units model %r does not reproduce natively (pieces %r)" % (text, real))
                        continue
                    rp = os.path.join(REPLAYS, prop, "token_units")
                    os.makedirs(rp, exist_ok=True)
                    with open(os.path.join(rp, "input.json"), "w") as f:
                        f.write(json.dumps({"text": text, "literal_start": 0, "start": s, "end": e}) + "\n")
                    with open(os.path.join(rp, "REPLAY.md"), "w") as f:
                        f.write("Property C23: token text %r: the real absolutize_relative_token returns the pieces %r (byte start, length); byte starts with UTF-16 lengths would be %r\nRun: bash %s/replay.sh\n" % (text, real, want, rp))
                    with open(os.path.join(rp, "replay.sh"), "w") as f:
                        f.write("#!/bin/bash\n%s < %s/input.json\nexit 1\n" % (binary, rp))
                    res["violations"].append(("token %r is split into %r (byte start, length); the LSP length in UTF-16 code units / byte starts would be %r" % (text, real, want), rp))
                    break
                if res["violations"]:
                    break
            if res["violations"]:
                break
        log("  token piece units (Engine S pre-stage): len=%s advance=%s, %d queries, %d unsat, %d violations" % (X["len"], X["advance"], len(queries), n_unsat, len(res["violations"])))
        res["cov"] = {"engine_s_pre_stage": {"what": "units of len (must be UTF-16) and of the running offset (must be bytes) of absolutize_relative_token, re-read from source; z3 over symbolic character widths, up to 2 pieces of up to 3 characters",
                                             "extracted": X, "queries": len(queries), "unsat": n_unsat, "translator_validation_inputs_agreeing": n_valid}}
    except Inconclusive as e:
        res["infra"].append(str(e))
    return res
