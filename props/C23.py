"""C23 Language-server positions address the right text (conversion kernels)."""
from kprop import run_k_property
import c23_units

Q, T = ("quick", "thorough"), ("thorough",)
SPECS = [
    dict(name="c23_delta_utf16_4", batch="q", tiers=("quick",), bound="every UTF-8 text of <= 4 bytes", what="delta_line_delta_start == (line breaks, UTF-16 units after the last line break)", timeout=1200),
    dict(name="c23_char_index_utf16_4", batch="q", tiers=("quick",), bound="every UTF-8 text of <= 4 bytes, every char-boundary offset", what="char_index_to_position == LSP (line, UTF-16 character)", timeout=1200),
    dict(name="c23_index_of_line_char_utf16_4", batch="q", tiers=("quick",), bound="every UTF-8 text of <= 4 bytes, every position on line >= 1", what="get_index_of_line_char(LSP position) == byte offset of that position", timeout=1200),
    dict(name="c23_index_of_line_char_first_line_total", batch="q", tiers=Q, bound="every UTF-8 text of <= 4 bytes, positions on line 0", what="no arithmetic underflow / panic, result within the text", timeout=1200),
    dict(name="c23_token_pieces_utf16_3", batch="q2", tiers=Q, bound="every UTF-8 text of <= 3 bytes, every token span on character boundaries", what="absolutize_relative_token: one piece per line of the token, each with its byte start and its length in UTF-16 code units", timeout=2400, mem_gb=20),
    dict(name="c23_token_pieces_utf16_4", batch="t4", tiers=T, bound="every UTF-8 text of <= 4 bytes, every token span on character boundaries", what="as c23_token_pieces_utf16_3 (4 bytes: also four-byte scalars, two UTF-16 units)", timeout=5400, mem_gb=24),
    dict(name="c23_cursor_to_literal_offset_3", batch="t5", tiers=T, bound="every UTF-8 document of <= 3 bytes, every literal [a,b) on character boundaries, every position", what="find_iso_literal_extraction_under_cursor: a received LSP position inside the literal maps to its byte offset in the literal (first-line convention +1), outside to None", timeout=3600, mem_gb=28),
    dict(name="c23_delta_utf16_6", batch="t1", tiers=T, bound="every UTF-8 text of <= 6 bytes", what="as c23_delta_utf16_4", timeout=2400),
    dict(name="c23_char_index_utf16_6", batch="t2", tiers=T, bound="every UTF-8 text of <= 6 bytes", what="as c23_char_index_utf16_4", timeout=2400),
    dict(name="c23_index_of_line_char_utf16_6", batch="t3", tiers=T, bound="every UTF-8 text of <= 6 bytes", what="as c23_index_of_line_char_utf16_4", timeout=2400),
]
FUNCTIONS = ["isograph_lsp::semantic_tokens::delta_line_delta_start", "isograph_lsp::format::char_index_to_position",
             "isograph_lsp::hover::get_index_of_line_char (+ utf16_offset_to_byte_offset)", "isograph_lsp::semantic_tokens::absolutize_relative_token",
             "isograph_lsp::hover::find_iso_literal_extraction_under_cursor + position_in_range (thorough)"]
FILES = ["crates/isograph_lsp/src/semantic_tokens.rs", "crates/isograph_lsp/src/format.rs", "crates/isograph_lsp/src/hover.rs"]
ASSUMPTIONS = [
    "bounded: texts of at most 4 (quick) / 6 (thorough) bytes; every mixture of 1-4 byte scalars and line breaks inside that bound",
    "oracle = LSP specification: line = '\\n' count before the offset, character = UTF-16 code units since the line start ('\\r' is not treated as a line break, like the code under test)",
    "get_index_of_line_char: exact value asserted for positions on line >= 1 only; for line 0 (where the code adds a historical +1) only totality is asserted",
    "only the conversion kernels and the splitting of one token into line pieces (texts <= 3 (4) bytes there: str::split_inclusive is expensive for CBMC); request handlers, the database and the composition of pieces into the delta-encoded token stream are outside the claim",
    "whole isograph_lsp crate compiled by Kani with its real dependencies (no stand-in crates are reachable from these kernels)",
]

def main():
    run_k_property("C23", "k_lsp", SPECS, functions=FUNCTIONS, files=FILES, assumptions=ASSUMPTIONS, level="other", max_parallel=3, pre_stage=c23_units.pre_stage,
                   explanation="Bounded-exhaustive decision by CBMC: each conversion kernel of the language server is compiled from /repo and compared with the LSP position definition for every UTF-8 text within the byte bound (symbolic bytes constrained by the real from_utf8) and every boundary offset.")

if __name__ == "__main__":
    main()
