"""C32 Cursor positions resolve to the innermost syntax node (derived resolve() of the real AST types)."""
from kprop import run_k_property

SPECS = [
    dict(name="c32_client_field_declaration", batch="ast", tiers=("quick", "thorough"),
         bound="one client field declaration: parent type, field name, optional description, selection set {scalar, object {selection set {scalar}}}, one variable declaration {name, type}; every span a symbolic u32 <= 1000 under the nesting invariant; every cursor offset <= 1000; unwind 3",
         what="resolve() returns the innermost node containing the cursor (variant and node identity), with the parent chain of enclosing nodes",
         timeout=1800, mem_gb=24),
]
FUNCTIONS = ["#[derive(ResolvePosition)] expansions for ClientFieldDeclaration, SelectionSet, ScalarSelection, ObjectSelection, VariableDeclarationInner, "
             "EntityNameWrapper, ClientScalarSelectableNameWrapper, Description, VariableNameWrapper", "impl ResolvePosition for SelectionType / TypeAnnotationDeclaration",
             "common_lang_types::Span::contains"]
FILES = ["crates/resolve_position_macros/src/resolve_position_macro.rs", "crates/resolve_position_macros/src/map_generics.rs", "crates/resolve_position/src/lib.rs",
         "crates/isograph_lang_types/src/declarations/client_selectable_declaration.rs", "crates/isograph_lang_types/src/declarations/selection_declaration.rs",
         "crates/isograph_lang_types/src/declarations/variable_declaration.rs", "crates/isograph_lang_types/src/string_key_wrappers.rs", "crates/common_lang_types/src/span.rs"]
ASSUMPTIONS = [
    "one AST shape (listed in the bound); the solver decides all span values and the cursor, not the shape",
    "parser nesting invariant assumed: children inside parents, siblings strictly separated (Span::contains is inclusive at both ends, so touching siblings are ambiguous and excluded)",
    "names are the pre-allocated empty interned string (position resolution never reads names)",
    "client pointer and entrypoint declarations, arguments and directives are outside the bound",
]

def main():
    run_k_property("C32", "k_ast", SPECS, functions=FUNCTIONS, files=FILES, assumptions=ASSUMPTIONS, level="other",
                   explanation="CBMC decides, for every assignment of spans (under the nesting invariant) and every cursor offset, that the derive-generated resolve() of the real AST types returns the innermost containing node with the right parent chain.")

if __name__ == "__main__":
    main()
