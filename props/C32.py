"""C32 Cursor positions resolve to the innermost syntax node (derived resolve() of the real AST types)."""
from kprop import run_k_property

SPECS = [
    dict(name="c32_client_field_declaration", batch="ast", tiers=("quick", "thorough"),
         bound="one client field declaration: parent type, field name, optional description, selection set {scalar, object {selection set {scalar}}}, one variable declaration {name, type}; every span a symbolic u32 <= 1000 under the nesting invariant; every cursor offset <= 1000; unwind 3",
         what="resolve() returns the innermost node containing the cursor (variant and node identity), with the parent chain of enclosing nodes",
         timeout=1800, mem_gb=24),
    dict(name="c32_client_pointer_declaration", batch="ast2", tiers=("quick", "thorough"),
         bound="one client pointer declaration: parent type, pointer name, target type, optional description, flat selection set with two scalar selections; all spans symbolic <= 1000; every cursor offset; unwind 3",
         what="innermost node (variant, identity - in particular the selection under the cursor and not its sibling) and the pointer-declaration parent variants",
         timeout=1800, mem_gb=24),
    dict(name="c32_entrypoint_declaration", batch="ast2", tiers=("quick", "thorough"),
         bound="one entrypoint declaration: parent type and field name spans symbolic", what="innermost node and parent variant", timeout=900),
]
FUNCTIONS = ["#[derive(ResolvePosition)] expansions for ClientFieldDeclaration, SelectionSet, ScalarSelection, ObjectSelection, VariableDeclarationInner, "
             "EntityNameWrapper, ClientScalarSelectableNameWrapper, Description, VariableNameWrapper", "impl ResolvePosition for SelectionType / TypeAnnotationDeclaration",
             "common_lang_types::Span::contains"]
FILES = ["crates/resolve_position_macros/src/resolve_position_macro.rs", "crates/resolve_position_macros/src/map_generics.rs", "crates/resolve_position/src/lib.rs",
         "crates/isograph_lang_types/src/declarations/client_selectable_declaration.rs", "crates/isograph_lang_types/src/declarations/selection_declaration.rs",
         "crates/isograph_lang_types/src/declarations/variable_declaration.rs", "crates/isograph_lang_types/src/string_key_wrappers.rs", "crates/common_lang_types/src/span.rs"]
ASSUMPTIONS = [
    "three AST shapes (client field, client pointer, entrypoint; listed in the bounds); the solver decides all span values and the cursor, not the shapes",
    "parser nesting invariant assumed: children inside parents, siblings strictly separated (Span::contains is inclusive at both ends, so touching siblings are ambiguous and excluded)",
    "names are the pre-allocated empty interned string (position resolution never reads names)",
    "arguments, directives, variable default values and deeper nesting are outside the bound",
]

def main():
    run_k_property("C32", "k_ast", SPECS, functions=FUNCTIONS, files=FILES, assumptions=ASSUMPTIONS, level="other",
                   explanation="CBMC decides, for every assignment of spans (under the nesting invariant) and every cursor offset, that the derive-generated resolve() of the real AST types returns the innermost containing node with the right parent chain.")

if __name__ == "__main__":
    main()
