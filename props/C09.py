"""C09 (one clause) Every variable an operation uses is among the variables the compiler collects for it.

The variable declarations of generated refetch / imperative operations are built from
`get_reachable_variables(merged selection map)`; the operation text is printed by `generate_query_text`.
C09 demands "every variable it uses is declared". Engine S: the collecting side
(`MergedServerSelection::reachable_variables`, `get_variables`, and - if it is used -
`NonConstantValueInner::variables`) and the printing side (`write_selections_for_query_text`,
`get_serialized_arguments_for_query_text`, `serialize_non_constant_value_for_graphql`) are re-read from
source and translated into two recursive functions over a bounded tree of selections and argument values;
per tree shape z3 decides, for all variable names, whether a printed `$name` can be missing from the
collected set. Models are replayed with the real crates (native/vars_driver, built with the hooks on)."""
import os, re, json, time, itertools, subprocess
import z3
from common import (tier, log, write_evidence, known_findings, finish, repo_fingerprint, REPLAYS, REPO, BUILD, run, env_offline)
from smt import Query, Inconclusive, read_repo, extract_fn, NATIVE

PROP = "C09"
F_MERGE = "crates/isograph_schema/src/create_merged_selection_set.rs"
F_QT = "crates/graphql_network_protocol/src/query_text.rs"
F_ARG = "crates/isograph_lang_types/src/declarations/selection_argument.rs"


def need(m, what):
    if not m:
        raise Inconclusive("encoding not regenerable: " + what)
    return m


def norm(t):
    return re.sub(r"\s+", " ", re.sub(r"//[^\n]*", "", t))


# ---------------------------------------------------------------- extraction

def extract():
    X = {}
    msrc = read_repo(F_MERGE)
    gv = norm(extract_fn(msrc, "get_variables"))
    if re.search(r"arguments\.iter\(\)\.flat_map\(\|arg\| match arg\.value \{ (?:isograph_lang_types::)?NonConstantValue::Variable\(v\) => Some\(v\), _ => None, \}\)", gv):
        X["collect_values"] = "top-level"          # only an argument that *is* a variable counts
    elif re.search(r"arguments\s*\.iter\(\)\s*\.flat_map\(\|arg\| arg\.value\.variables\(\)\)", gv):
        X["collect_values"] = "recursive"          # NonConstantValueInner::variables
    else:
        raise Inconclusive("encoding not regenerable: get_variables has an unrecognised shape: " + gv[:300])
    if X["collect_values"] == "recursive":
        asrc = read_repo(F_ARG)
        vf = norm(extract_fn(asrc[asrc.index("impl<TLocation> NonConstantValueInner<TLocation>"):], "variables"))
        X["variables_fn"] = {
            "Variable": bool(re.search(r"NonConstantValueInner::Variable\(variable_name\) => vec!\[\*variable_name\]", vf)),
            "Object": bool(re.search(r"NonConstantValueInner::Object\(name_value_pairs\) => \{ let mut variables = vec!\[\]; for item in name_value_pairs \{ variables\.extend\(item\.value\.item\.variables\(\)\); \} variables \}", vf)),
            "List": bool(re.search(r"NonConstantValueInner::List\(items\) => \{ let mut variables = vec!\[\]; for item in items \{ variables\.extend\(item\.item\.variables\(\)\); \} variables \}", vf)),
            "rest_empty": bool(re.search(r"_ => vec!\[\],", vf)),
        }
        if not (X["variables_fn"]["Variable"] and X["variables_fn"]["rest_empty"] and X["variables_fn"]["Object"]):
            raise Inconclusive("encoding not regenerable: NonConstantValueInner::variables has an unrecognised shape")
    i = msrc.index("pub fn reachable_variables(&self) -> BTreeSet<VariableNameWrapper>")
    rv = norm(msrc[i:msrc.index("\n    }\n", i)])
    X["collect_nodes"] = {
        "scalar": bool(re.search(r"MergedServerSelection::ScalarField\(field\) => get_variables\(&field\.arguments\)\.collect\(\)", rv)),
        "linked_args_and_children": bool(re.search(r"MergedServerSelection::ClientObjectSelectable\(field\) \| MergedServerSelection::LinkedField\(field\) => get_variables\(&field\.arguments\) \.chain\( field \.selection_map \.values\(\) \.flat_map\(\|x\| x\.reachable_variables\(\)\), \) \.collect\(\)", rv)),
        "fragment_children": bool(re.search(r"MergedServerSelection::InlineFragment\(inline_fragment\) => inline_fragment \.selection_map \.values\(\) \.flat_map\(\|selection\| selection\.reachable_variables\(\)\) \.collect\(\)", rv)),
    }
    if not all(X["collect_nodes"].values()):
        raise Inconclusive("encoding not regenerable: reachable_variables has an unrecognised shape: %r" % X["collect_nodes"])
    need(re.search(r"selection_map\.values\(\)\.flat_map\(\|x\| x\.reachable_variables\(\)\)", norm(extract_fn(msrc, "get_reachable_variables"))), "get_reachable_variables shape")

    qsrc = read_repo(F_QT)
    sv = norm(extract_fn(qsrc, "serialize_non_constant_value_for_graphql"))
    X["print_values"] = {
        "Variable": bool(re.search(r'NonConstantValue::Variable\(variable_name\) => format!\("\$\{variable_name\}"\)', sv)),
        "Object_recursive": bool(re.search(r"NonConstantValue::Object\(object\) => format!\( \"\{\{ \{\} \}\}\", object \.iter\(\) \.map\(\|entry\| format!\( \"\{\}: \{\}\", entry\.name\.item, serialize_non_constant_value_for_graphql\(&entry\.value\.item\) \)\)", sv)),
        "List_panics": "NonConstantValue::List(_) => panic!" in sv,
    }
    if not (X["print_values"]["Variable"] and X["print_values"]["Object_recursive"]):
        raise Inconclusive("encoding not regenerable: serialize_non_constant_value_for_graphql has an unrecognised shape")
    for k in ("Integer", "Boolean", "Float", "Null", "Enum"):
        m = re.search(r"NonConstantValue::%s(?:\(\w+\))? => ([^,]*(?:\([^)]*\))?[^,]*)," % k, sv)
        if not m or "$" in m.group(1):
            raise Inconclusive("encoding not regenerable: printing of %s values changed" % k)
    ws = norm(extract_fn(qsrc, "write_selections_for_query_text"))
    X["print_nodes"] = {
        "scalar_args": bool(re.search(r"MergedServerSelection::ScalarField\(scalar_field\) => \{.*?get_serialized_arguments_for_query_text\(&scalar_field\.arguments\);", ws)),
        "linked_args_and_children": bool(re.search(r"MergedServerSelection::LinkedField\(linked_field\) => \{.*?get_serialized_arguments_for_query_text\(&linked_field\.arguments\);.*?write_selections_for_query_text\( query_text, &linked_field\.selection_map,", ws)),
        "client_object_nothing": bool(re.search(r"MergedServerSelection::ClientObjectSelectable\(_\) => \{\}", ws)),
        "fragment_children": bool(re.search(r"MergedServerSelection::InlineFragment\(inline_fragment\) => \{.*?write_selections_for_query_text\( query_text, &inline_fragment\.selection_map,", ws)),
    }
    if not all(X["print_nodes"].values()):
        raise Inconclusive("encoding not regenerable: write_selections_for_query_text has an unrecognised shape: %r" % X["print_nodes"])
    sa = norm(extract_fn(qsrc, "get_serialized_arguments_for_query_text"))
    if sa.count("serialize_non_constant_value_for_graphql(") != 2:
        raise Inconclusive("encoding not regenerable: get_serialized_arguments_for_query_text shape changed")
    return X


# ---------------------------------------------------------------- shapes and the two recursive functions

LEAF = ["var", "int", "null"]


def value_shapes(depth):
    out = [("var",), ("int",), ("null",)]
    if depth > 0:
        inner = value_shapes(depth - 1)
        out.append(("obj", ()))
        for v in inner:
            out.append(("obj", (v,)))
        for a, b in itertools.product(inner, repeat=2):
            out.append(("obj", (a, b)))
    return out


def node_shapes(B):
    vs = value_shapes(B["vdepth"])
    arglists = [()] + [(v,) for v in vs] + [(a, b) for a in vs[:B["two_arg_values"]] for b in vs]
    scal = [("scalar", al) for al in arglists]
    out = [[s] for s in scal]
    out += [[("linked", al, [s])] for al in arglists[:B["outer_args"]] for s in scal[:B["inner_nodes"]]]
    out += [[("fragment", [s])] for s in scal]
    out += [[("linked", (), [("fragment", [s])])] for s in scal[:B["inner_nodes"]]]
    return out


class Namer:
    def __init__(self, q, B):
        self.q, self.B, self.n = q, B, 0

    def fresh(self):
        v = z3.String("v%d" % self.n)
        self.n += 1
        self.q.add(z3.InRe(v, z3.Concat(z3.Range("a", "c"), z3.Star(z3.Range("a", "c")))), z3.Length(v) <= self.B["namelen"])
        return v


def build_value(vs, nm, js):
    """returns (used names printed, names collected by NonConstantValueInner::variables, json builder)"""
    if vs[0] == "var":
        v = nm.fresh()
        return [v], [v], ("var", v)
    if vs[0] in ("int", "null"):
        return [], [], (vs[0],)
    used, rec, entries = [], [], []
    for e in vs[1]:
        u, r, j = build_value(e, nm, js)
        used += u
        rec += r
        entries.append(j)
    return used, rec, ("obj", entries)


def build_nodes(nodes, X, nm):
    used, coll, js = [], [], []
    for nd in nodes:
        if nd[0] in ("scalar", "linked"):
            ajs = []
            for vs in nd[1]:
                u, r, j = build_value(vs, nm, None)
                used += u                                   # printed arguments: variables at any depth inside objects
                if X["collect_values"] == "top-level":
                    coll += (r if vs[0] == "var" else [])
                else:
                    coll += (r if (vs[0] == "var" or X["variables_fn"]["Object"]) else [])
                ajs.append(j)
            if nd[0] == "linked":
                u2, c2, j2 = build_nodes(nd[2], X, nm)
                used += u2
                coll += c2
                js.append(("linked", ajs, j2))
            else:
                js.append(("scalar", ajs))
        else:
            u2, c2, j2 = build_nodes(nd[1], X, nm)
            used += u2
            coll += c2
            js.append(("fragment", j2))
    return used, coll, js


def to_json(js, m, counter):
    def val(j):
        if j[0] == "var":
            return {"k": "var", "n": m.eval(j[1], model_completion=True).as_string()}
        if j[0] == "int":
            return {"k": "int", "v": "1"}
        if j[0] == "null":
            return {"k": "null"}
        return {"k": "obj", "e": [["k%d" % i, val(e)] for i, e in enumerate(j[1])]}
    out = []
    for nd in js:
        counter[0] += 1
        name = "f%d" % counter[0]
        if nd[0] == "scalar":
            out.append({"t": "scalar", "name": name, "args": [["a%d" % i, val(a)] for i, a in enumerate(nd[1])]})
        elif nd[0] == "linked":
            out.append({"t": "linked", "name": name, "args": [["a%d" % i, val(a)] for i, a in enumerate(nd[1])], "children": to_json(nd[2], m, counter)})
        else:
            out.append({"t": "fragment", "on": "T", "children": to_json(nd[1], m, counter)})
    return out


def build_driver():
    d = os.path.join(NATIVE, "vars_driver")
    import shutil
    shutil.copyfile(os.path.join(REPO, "Cargo.lock"), os.path.join(d, "Cargo.lock"))
    rc, out, wall, to = run(["cargo", "build", "--release"], cwd=d, timeout=2400,
                            env=env_offline({"CARGO_TARGET_DIR": os.path.join(BUILD, "native_hooks"), "RUSTFLAGS": "--cfg kani"}))
    if rc != 0:
        raise Inconclusive("native driver vars_driver does not build against /repo (hooks on): " + out[-800:])
    return os.path.join(BUILD, "native_hooks", "release", "vars_driver")


def run_driver(binary, trees):
    p = subprocess.run([binary], input="\n".join(json.dumps(t) for t in trees) + "\n", capture_output=True, text=True, timeout=120)
    if p.returncode != 0:
        raise Inconclusive("vars_driver failed: " + p.stderr[-400:])
    res = []
    for l in p.stdout.splitlines():
        j = json.loads(l)
        used = re.findall(r"\$([A-Za-z_][A-Za-z0-9_]*)", j["text"])
        res.append((used, j["collected"], j["text"]))
    return res


def cls_nested(nodes):
    """known class: a variable nested inside an object argument"""
    def v_nested(vs, depth=0):
        if vs[0] == "var":
            return depth > 0
        if vs[0] == "obj":
            return any(v_nested(e, depth + 1) for e in vs[1])
        return False
    def walk(ns):
        for nd in ns:
            if nd[0] in ("scalar", "linked") and any(v_nested(v) for v in nd[1]):
                return True
            if nd[0] == "linked" and walk(nd[2]):
                return True
            if nd[0] == "fragment" and walk(nd[1]):
                return True
        return False
    return walk(nodes)


def main():
    t0 = time.time()
    T_ = tier()
    B = {"vdepth": 1, "namelen": 2, "two_arg_values": 3, "outer_args": 3, "inner_nodes": 8} if T_ == "quick" else \
        {"vdepth": 2, "namelen": 2, "two_arg_values": 6, "outer_args": 6, "inner_nodes": 20}
    violations, known_lines, infra, queries, samples = [], [], [], [], []
    n_valid = 0
    kf = known_findings(PROP)
    known = {k: t for kind, k, t in kf if kind == "known" and k}
    X = None
    QB = None
    os.makedirs(os.path.join(REPLAYS, PROP), exist_ok=True)
    try:
        binary = build_driver()

        def replay(tree, what, tag):
            rp = os.path.join(REPLAYS, PROP, tag)
            os.makedirs(rp, exist_ok=True)
            with open(os.path.join(rp, "input.jsonl"), "w") as f:
                f.write(json.dumps(tree) + "\n")
            with open(os.path.join(rp, "REPLAY.md"), "w") as f:
                f.write("Property C09: %s\nRun: bash %s/replay.sh  (prints the variables the real compiler code collects and the operation text it prints)\n" % (what, rp))
            with open(os.path.join(rp, "replay.sh"), "w") as f:
                f.write("#!/bin/bash\n%s < %s/input.jsonl\nexit 1\n" % (binary, rp))
            return rp

        # ---- stage 0 (not solver-decided; a guard that does not depend on the translator): fixed probe trees through the real code
        V = lambda n: {"k": "var", "n": n}
        O = lambda *es: {"k": "obj", "e": [["k%d" % i, e] for i, e in enumerate(es)]}
        guard = [
            [{"t": "scalar", "name": "f", "args": [["a", V("x")], ["b", O(V("y"))]]}],
            [{"t": "scalar", "name": "f", "args": [["a", O({"k": "int", "v": "1"}, V("y"))]]}],
            [{"t": "scalar", "name": "f", "args": [["a", O(O(V("deep")))]]}],
            [{"t": "scalar", "name": "f", "args": [["a", O(O({"k": "null"}, V("deep2")), V("z"))]]}],
            [{"t": "linked", "name": "n", "args": [["id", V("id")], ["w", O(V("wv"))]], "children": [{"t": "scalar", "name": "g", "args": [["q", V("q")], ["r", O(V("r"))]]}]}],
            [{"t": "fragment", "on": "T", "children": [{"t": "scalar", "name": "h", "args": [["p", O(V("p"))]]}]}],
            [{"t": "linked", "name": "n", "args": [], "children": [{"t": "fragment", "on": "T", "children": [{"t": "scalar", "name": "h", "args": [["p", V("p1")], ["s", O(V("p2"), V("p3"))]]}]}]}],
            # deeper nestings of the three node kinds in each other
            [{"t": "fragment", "on": "A", "children": [{"t": "fragment", "on": "B", "children": [{"t": "scalar", "name": "h", "args": [["p", V("ff")]]}]}]}],
            [{"t": "fragment", "on": "A", "children": [{"t": "linked", "name": "n", "args": [["x", V("fl1")]], "children": [{"t": "scalar", "name": "h", "args": [["p", V("fl2")]]}]}]}],
            [{"t": "linked", "name": "n", "args": [["x", V("ll1")]], "children": [{"t": "linked", "name": "m", "args": [["y", V("ll2")]], "children": [{"t": "scalar", "name": "h", "args": [["p", V("ll3")]]}]}]}],
            [{"t": "fragment", "on": "A", "children": [{"t": "linked", "name": "n", "args": [], "children": [{"t": "fragment", "on": "B", "children": [{"t": "scalar", "name": "h", "args": [["p", V("flf")]]}]}]}]}],
            [{"t": "linked", "name": "n", "args": [], "children": [{"t": "fragment", "on": "A", "children": [{"t": "fragment", "on": "B", "children": [{"t": "linked", "name": "m", "args": [["q", V("lffl")]], "children": [{"t": "scalar", "name": "h", "args": []}]}]}]}]}],
            [{"t": "scalar", "name": "f", "args": [["a", V("s1")]]}, {"t": "scalar", "name": "g", "args": [["a", V("s2")], ["b", V("s3")], ["c", V("s4")]]}, {"t": "fragment", "on": "T", "children": [{"t": "scalar", "name": "h", "args": [["p", V("s5")]]}]}],
        ]
        for tree, (u_nat, c_nat, text) in zip(guard, run_driver(binary, guard)):
            missing = sorted(set(u_nat) - set(c_nat))
            if missing:
                violations.append(("probe %s: operation text %r uses $%s, which get_reachable_variables does not collect (%r)" % (json.dumps(tree), text, ", $".join(missing), c_nat),
                                   replay(tree, "a variable used by the printed operation is not collected (native probe guard)", "guard_%d" % len(violations))))
            extra_ = sorted(set(c_nat) - set(u_nat))
            if extra_:
                violations.append(("probe %s: get_reachable_variables collects $%s, which the operation text %r never uses" % (json.dumps(tree), ", $".join(extra_), text),
                                   replay(tree, "a collected variable is not used by the printed operation (native probe guard)", "guard_%d" % len(violations))))
        samples.append({"native_probe_guard_trees": len(guard)})

        X = extract()
        shapes = node_shapes(B)

        # ---- translator validation: concrete trees through the encoding's two functions and the real code
        probes = [
            [("scalar", (("var",), ("obj", (("var",),))))],
            [("linked", (("var",),), [("scalar", (("obj", (("int",), ("var",))),))])],
            [("fragment", [("scalar", (("var",), ("null",)))])],
        ]
        for pr in probes:
            q = Query("C09_validate", simple=True)
            nm = Namer(q, {"namelen": 2})
            used, coll, js = build_nodes(pr, X, nm)
            q.add(z3.Distinct(*used) if len(used) > 1 else z3.BoolVal(True))
            if q.check(cross_check=False) != "sat":
                raise Inconclusive("translator validation: probe unsatisfiable")
            m = q.model()
            tree = to_json(js, m, [0])
            u_nat, c_nat, _ = run_driver(binary, [tree])[0]
            ev = lambda xs: sorted(m.eval(x, model_completion=True).as_string() for x in xs)
            if sorted(u_nat) != ev(used) or sorted(c_nat) != ev(coll):
                raise Inconclusive("translator validation failed on %s: encoding used=%r collected=%r, real used=%r collected=%r" % (json.dumps(tree), ev(used), ev(coll), u_nat, c_nat))
            n_valid += 1
        samples.append({"translator_validation_trees": n_valid})

        n_q = n_unsat = 0
        witnessed = False
        solver_s = 0.0
        for sh in shapes:
            q = Query("C09_shape", solver_timeout_s=60, simple=True)
            nm = Namer(q, B)
            used, coll, js = build_nodes(sh, X, nm)
            if not used:
                continue
            q.add(z3.Or(*[z3.And(*[u != c for c in coll]) if coll else z3.BoolVal(True) for u in used]))
            r = q.check(cross_check=False)
            n_q += 1
            solver_s += q.time_s
            if r == "unsat":
                n_unsat += 1
                # reverse direction ("every declared variable is used"): a collected name that the printed text never uses
                if coll:
                    q2 = Query("C09_shape_reverse", solver_timeout_s=60, simple=True)
                    nm2 = Namer(q2, B)
                    used2, coll2, js2 = build_nodes(sh, X, nm2)
                    q2.add(z3.Or(*[z3.And(*[c != u for u in used2]) if used2 else z3.BoolVal(True) for c in coll2]))
                    r2 = q2.check(cross_check=False)
                    n_q += 1
                    solver_s += q2.time_s
                    if r2 == "unsat":
                        n_unsat += 1
                    else:
                        tree = to_json(js2, q2.model(), [0])
                        u_nat, c_nat, text = run_driver(binary, [tree])[0]
                        extra = sorted(set(c_nat) - set(u_nat))
                        if not extra:
                            infra.append("reverse model %s does not reproduce natively (used %r, collected %r)" % (json.dumps(tree), u_nat, c_nat))
                        else:
                            rp = replay(tree, "a variable collected for the declarations is not used by the printed operation", "shape_rev_%d" % n_q)
                            violations.append(("get_reachable_variables collects $%s for %s but the operation text %r never uses it" % (", $".join(extra), json.dumps(tree), text), rp))
                            samples.append({"tree": tree, "text": text, "used": u_nat, "collected": c_nat, "direction": "collected-not-used"})
                            if len(violations) >= 3:
                                break
                continue
            tree = to_json(js, q.model(), [0])
            u_nat, c_nat, text = run_driver(binary, [tree])[0]
            missing = sorted(set(u_nat) - set(c_nat))
            if not missing:
                infra.append("model %s does not reproduce natively (used %r, collected %r)" % (json.dumps(tree), u_nat, c_nat))
                continue
            in_known = cls_nested(sh) and "variable-nested-in-object-argument" in known
            if in_known:
                if not witnessed:
                    witnessed = True
                    rp = replay(tree, "a variable used by the printed operation is not collected (known class)", "known_nested")
                    known_lines.append("key=variable-nested-in-object-argument %s (witness %s: text %r uses %r, collected %r, replay %s)" % (known["variable-nested-in-object-argument"], json.dumps(tree), text, u_nat, c_nat, rp))
                    samples.append({"tree": tree, "text": text, "used": u_nat, "collected": c_nat, "class": "variable-nested-in-object-argument"})
            else:
                rp = replay(tree, "a variable used by the printed operation is not collected", "shape_%d" % n_q)
                violations.append(("operation text %r uses $%s, which get_reachable_variables does not collect (%r) for %s" % (text, ", $".join(missing), c_nat, json.dumps(tree)), rp))
                samples.append({"tree": tree, "text": text, "used": u_nat, "collected": c_nat})
                if len(violations) >= 3:
                    break
        if "variable-nested-in-object-argument" in known and not witnessed:
            log("  note: known finding variable-nested-in-object-argument no longer reproduces")
        queries.append({"query": "C09 used-subset-of-collected per shape", "shape_queries": n_q, "unsat_shapes": n_unsat, "solver_s": round(solver_s, 2)})
        log("  %d shape queries, %d unsat, %d violations (%.1fs solver)" % (n_q, n_unsat, len(violations), solver_s))
        # ---- clause B: the operation text the runtime evaluates from the query_text module is the text the compiler printed
        import qtmod
        QB = qtmod.run_clause("value", T_, PROP)
        violations += QB["violations"]
        infra += QB["infra"]
    except Inconclusive as e:
        infra.append(str(e))

    n_q = sum(q.get("shape_queries", 0) for q in queries)
    n_unsat = sum(q.get("unsat_shapes", 0) for q in queries)
    cov = {
        "explanation": "Two clauses of C09; (B) is described under clause_b_query_text_module. (A) ('every variable it uses is declared'): the variables collected for an operation's declarations "
                       "(get_reachable_variables) versus the variables its printed text uses (generate_query_text). Both recursive functions are "
                       "re-read from source and applied to enumerated selection/argument tree shapes; z3 decides over all variable names per shape; "
                       "models are replayed with the real crates.",
        "functions_encoded": ["MergedServerSelection::reachable_variables", "get_variables", "get_reachable_variables", "NonConstantValueInner::variables",
                              "write_selections_for_query_text", "get_serialized_arguments_for_query_text", "serialize_non_constant_value_for_graphql"],
        "extracted": X,
        "clause_b_query_text_module": None if QB is None else {
            "question": "for every string literal argument (units: plain character of the lexer's class / two-character escape / \\uXXXX, all characters symbolic) the string that the "
                        "query_text module export default '<operation text>'; evaluates to (strict-mode ECMAScript string-literal lexer executed symbolically) equals the operation "
                        "text the compiler printed, line continuations removed - i.e. the server receives the GraphQL string tokens the compiler wrote",
            "extracted": QB["extracted"], "bounds": QB["bounds"], "shapes": QB["n_shapes"], "lexer_paths": QB["n_paths"], "solver_queries": QB["n_queries"],
            "solver_time_s": round(QB["solver_s"], 2), "paths_with_equal_value": QB["n_unsat"], "translator_validation_inputs_agreeing": QB["n_valid"], "samples": QB["samples"][:3]},
        "source_fingerprint": repo_fingerprint([F_MERGE, F_QT, F_ARG] + __import__("qtmod").FILES),
        "bounds": dict(B, trees="one scalar field; a linked field with one child; an inline fragment with one child; a linked field with a fragment child",
                       values="Variable, Integer, Null, Object of <= 2 entries nested to vdepth; <= 2 arguments"),
        "queries": queries, "queries_discharged": n_q + (QB["n_queries"] if QB else 0), "solver_time_s": round(sum(q["solver_s"] for q in queries) + (QB["solver_s"] if QB else 0), 2),
        "translator_validation_inputs_agreeing": n_valid + (QB["n_valid"] if QB else 0),
        "evaluations": n_q + n_valid + ((QB["n_shapes"] + QB["n_valid"]) if QB else 0), "distinct_nontrivial": n_unsat + len(samples) + (QB["n_unsat"] if QB else 0),
        "rule": "evaluations = per-shape SMT queries + validation trees on which the encoding's used/collected sets equal the real code's; "
                "distinct_nontrivial = shapes decided unsat + distinct sat models replayed natively; clause B adds one evaluation per string shape and per probe and one "
                "distinct_nontrivial per lexer path whose value is proved equal",
        "samples": samples[:6] or [{"note": "none"}],
        "exhaustive": False,
        "known_findings_reported": known_lines,
    }
    assumptions = [
        "PARTIAL: two clauses: (A) 'every variable the operation uses is among the variables collected for its declarations'; (B) the operation text reaches the runtime unchanged "
        "through the query_text module for string literal arguments (two contexts, string literals of at most `units` units); parsing and validating the operation "
        "against a schema, unused variables, type compatibility and field merging need a whole compile and a GraphQL implementation and are outside the claim",
        "the collected set is what entrypoint_artifact / refetch_strategy turn into declarations for generated (refetch, imperative) operations; user-written "
        "entrypoint declarations are validated elsewhere (validate_use_of_arguments) and are outside this check",
        "List values are outside the bound (the printer panics on them); ClientObjectSelectable nodes print nothing and are not generated",
        "native replay uses drivers built with the verification hooks on (RUSTFLAGS=--cfg kani), which only adds the re-exports",
    ]
    write_evidence(PROP, "other", cov, assumptions, time.time() - t0, len(violations))
    finish(PROP, violations, known_lines, infra)


if __name__ == "__main__":
    main()
