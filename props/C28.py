"""C28 The SWC transform classifies each literal like the compiler (classification part).

Engine S. Re-read on every run:
  crates/swc_isograph_plugin/src/lib.rs       OPERATION_REGEX, capture groups 1..3 on `raw.trim()`, ArtifactType::from
  crates/isograph_lang_parser/src/token_kind.rs   whitespace / Identifier / Period token definitions
  crates/isograph_lang_parser/src/parse_iso_literal.rs   keyword dispatch ("entrypoint" | "field" | "pointer")
The plugin's regex is translated into a leftmost-first matcher over an array of symbolic characters
(bit-vectors); the compiler's header language is generated as *shapes*: keyword, whitespace runs, type
and field identifiers (all characters symbolic within their lexical class), followed by one of a fixed
list of valid continuations. Query per shape: the regex does not match, or its three captures differ from
(keyword, type, field) as the compiler reads them.  sat = counterexample, replayed with the real parser
and the real regex crate."""
import os, re, json, time, itertools
import z3
from common import (tier, log, write_evidence, known_findings, finish, repo_fingerprint, REPLAYS)
from smt import Query, Inconclusive, build_native, run_native, read_repo, extract_fn, rust_str_literal

PROP = "C28"
F_PLUGIN = "crates/swc_isograph_plugin/src/lib.rs"
F_TOK = "crates/isograph_lang_parser/src/token_kind.rs"
F_PARSE = "crates/isograph_lang_parser/src/parse_iso_literal.rs"


def need(m, what):
    if not m:
        raise Inconclusive("encoding not regenerable: " + what)
    return m


# ---------------------------------------------------------------- extraction

def parse_class(body):
    """[...] body -> (negated, set of byte values); supports \\s, \\., \\(, \\t etc., ranges"""
    neg = body.startswith("^")
    if neg:
        body = body[1:]
    s = set()
    i = 0
    WS = {0x20, 0x09, 0x0a, 0x0b, 0x0c, 0x0d}          # ASCII part of \s (the encoding is ASCII-only, stated)
    while i < len(body):
        c = body[i]
        if c == "\\":
            n = body[i + 1]
            if n == "s":
                s |= WS
            elif n in ".()[]{}\\/+*?|^$-":
                s.add(ord(n))
            elif n in "tnrf":
                s.add({"t": 9, "n": 10, "r": 13, "f": 12}[n])
            elif n == "x":
                s.add(int(body[i + 2:i + 4], 16))
                i += 4
                continue
            else:
                raise Inconclusive("encoding not regenerable: escape \\%s in character class" % n)
            i += 2
            continue
        if i + 2 < len(body) and body[i + 1] == "-":
            s.update(range(ord(c), ord(body[i + 2]) + 1))
            i += 3
            continue
        s.add(ord(c))
        i += 1
    return neg, frozenset(s)


WS_SET = frozenset({0x20, 0x09, 0x0a, 0x0b, 0x0c, 0x0d})
ALL = frozenset(range(1, 128))


def parse_plugin_regex(pat):
    """Translates the regex into a flat list of elements:
         ("gopen",) ("gclose",)                capturing group boundaries
         ("alt", [words])                      alternation of plain words (must be a whole group)
         ("cls", set)  ("run+", set)  ("run*", set)     one char / greedy runs of a character set (ASCII)
       Supported syntax: \s  \s*  \s+ ; [class] [class]+ [class]* (negated or not) ; escaped or plain literal chars;
       capturing groups containing an alternation of words or a concatenation of the atoms above.
       Greedy runs are matched maximally without backtracking; this is exact only if the run's set is disjoint from
       everything that can follow it, which is checked (else: not regenerable)."""
    els = []
    i = 0
    def atom_set(i):
        """parse one char-set atom at i -> (set, next index) or None"""
        if pat.startswith("\\s", i):
            return WS_SET, i + 2
        if pat[i] == "[":
            j = i + 1
            while pat[j] != "]" or pat[j - 1] == "\\":
                j += 1
            neg, cs = parse_class(pat[i + 1:j])
            return (frozenset(ALL - cs) if neg else cs), j + 1
        if pat[i] == "\\":
            return frozenset([ord(pat[i + 1])]), i + 2
        if pat[i] in "*+?{}|^$.()":
            return None
        return frozenset([ord(pat[i])]), i + 1
    while i < len(pat):
        c = pat[i]
        if c == "(":
            if pat.startswith("(?", i):
                raise Inconclusive("encoding not regenerable: non-capturing / flag groups are outside the supported subset")
            j = pat.index(")", i)
            inner = pat[i + 1:j]
            if re.fullmatch(r"[A-Za-z_]+(\|[A-Za-z_]+)+", inner):
                els.append(("gopen",)); els.append(("alt", inner.split("|"))); els.append(("gclose",))
                i = j + 1
                continue
            els.append(("gopen",))
            i += 1
            continue
        if c == ")":
            els.append(("gclose",))
            i += 1
            continue
        r = atom_set(i)
        if r is None:
            raise Inconclusive("encoding not regenerable: regex construct %r outside the supported subset" % c)
        cs, i = r
        if i < len(pat) and pat[i] in "+*":
            els.append(("run" + pat[i], cs))
            i += 1
        elif i < len(pat) and pat[i] in "?{":
            raise Inconclusive("encoding not regenerable: quantifier %r outside the supported subset" % pat[i])
        else:
            els.append(("cls", cs))
    if [e[0] for e in els].count("gopen") != 3 or [e[0] for e in els].count("gclose") != 3:
        raise Inconclusive("encoding not regenerable: expected exactly three capture groups")
    # determinism check: a greedy run must not be able to swallow the start of what follows
    def first_sets(k):
        """set of chars that can start a match of els[k:], following nullable elements"""
        out = set()
        while k < len(els):
            e = els[k]
            if e[0] in ("gopen", "gclose"):
                k += 1
                continue
            if e[0] == "alt":
                out |= {ord(w[0]) for w in e[1]}
                return out
            out |= set(e[1])
            if e[0] == "run*":
                k += 1
                continue
            return out
        return out
    for k, e in enumerate(els):
        if e[0] in ("run+", "run*"):
            if set(e[1]) & first_sets(k + 1):
                raise Inconclusive("encoding not regenerable: a greedy run can overlap what follows it (backtracking semantics are not encoded)")
    return els, None


def extract():
    src = read_repo(F_PLUGIN)
    i0 = src.find("static OPERATION_REGEX: Lazy<Regex>")
    if i0 < 0:
        raise Inconclusive("encoding not regenerable: OPERATION_REGEX not found")
    decl = src[i0:src.index(";", i0) + 1]
    m = need(re.fullmatch(r'static OPERATION_REGEX: Lazy<Regex> =\s*Lazy::new\(\|\|\s*\{?\s*Regex::new\(r"((?:[^"])*)"\)\s*\.unwrap\(\)\s*\}?\s*\);', decl), "OPERATION_REGEX declaration shape")
    pattern = m.group(1)
    fn = re.sub(r"\s+", " ", re.sub(r"//[^\n]*", "", extract_fn(src, "parse_iso_template_literal")))
    need(re.search(r"OPERATION_REGEX \.captures_iter\(first\.raw\.trim\(\)\) \.next\(\) \.map\(\|capture_group\| \{ (?:debug!\([^;]*\); )?ValidIsographTemplateLiteral \{ "
                   r"artifact_type: ArtifactType::from\(&capture_group\[1\]\), field_type: capture_group\[2\]\.to_string\(\), field_name: capture_group\[3\]\.to_string\(\), \} \}\) "
                   r"\.ok_or\(IsographTransformError::InvalidIsoKeyword\)", fn), "use of the capture groups in parse_iso_template_literal")
    i = src.index("impl From<&str> for ArtifactType")
    af = re.sub(r"\s+", " ", src[i:src.index("\n}\n", i)])
    m = need(re.search(r'match s \{ "entrypoint" => Self::Entrypoint, "field" \| "pointer" => Self::Field,', af), "ArtifactType::from mapping")
    kinds = {"entrypoint": "Entrypoint", "field": "Field", "pointer": "Field"}

    tok = read_repo(F_TOK)
    m = need(re.search(r'#\[regex\(r"\[((?:[^\]\\]|\\.)*)\]\+", logos::skip\)\]', tok), "whitespace token definition")
    ws_src = m.group(1)
    ws = set()
    j = 0
    while j < len(ws_src):
        if ws_src[j] == "\\":
            n = ws_src[j + 1]
            if n == "u":
                cp = int(ws_src[j + 2:j + 6], 16)
                if cp < 128:
                    ws.add(cp)
                j += 6
                continue
            ws.add({"t": 9, "n": 10, "r": 13, "f": 12}[n])
            j += 2
            continue
        ws.add(ord(ws_src[j]))
        j += 1
    m = need(re.search(r'#\[regex\("\[a-zA-Z_\]\[a-zA-Z0-9_\]\*"\)\]\s*Identifier,', tok), "Identifier token definition")
    need(re.search(r'#\[token\("\."\)\]\s*Period,', tok), "Period token definition")
    psrc = read_repo(F_PARSE)
    pf = re.sub(r"\s+", " ", extract_fn(psrc, "parse_iso_literal"))
    kws = re.findall(r'"(\w+)" => \{ (?:let \w+ = )?tokens\.parse_source_of_kind\( IsographLangTokenKind::Identifier,', pf)
    if sorted(kws) != ["entrypoint", "field", "pointer"]:
        raise Inconclusive("encoding not regenerable: keyword dispatch of parse_iso_literal changed: %r" % (kws,))
    els, _ = parse_plugin_regex(pattern)
    return dict(pattern=pattern, els=els, kinds=kinds, lexer_ws=sorted(ws), keywords=sorted(kws))


# ---------------------------------------------------------------- symbolic regex matcher (leftmost-first, greedy runs)

ID_START = [(ord("a"), ord("z")), (ord("A"), ord("Z")), (95, 95)]
ID_CONT = ID_START + [(ord("0"), ord("9"))]
TRIM_WS = {0x20, 0x09, 0x0a, 0x0b, 0x0c, 0x0d}


def in_ranges(c, rs):
    return z3.Or(*[z3.And(z3.UGE(c, lo), z3.ULE(c, hi)) if lo != hi else c == lo for lo, hi in rs])


def in_set(c, s):
    vals = sorted(s)
    rs, st, pv = [], vals[0], vals[0]
    for v in vals[1:]:
        if v != pv + 1:
            rs.append((st, pv)); st = v
        pv = v
    rs.append((st, pv))
    return in_ranges(c, rs)


class Matcher:
    """Match state positions are z3 Ints; text is a python list of 8-bit z3 terms of concrete length L."""
    def __init__(self, text):
        self.T = text
        self.L = len(text)

    def run_end(self, pred):
        """e[i] for concrete i: end of the maximal run of chars satisfying pred starting at i"""
        e = [None] * (self.L + 1)
        e[self.L] = z3.IntVal(self.L)
        for i in range(self.L - 1, -1, -1):
            e[i] = z3.If(pred(self.T[i]), e[i + 1], z3.IntVal(i))
        return e

    def sel(self, table, p):
        """table[p] for symbolic p in 0..L"""
        r = table[self.L]
        for i in range(self.L - 1, -1, -1):
            r = z3.If(p == i, table[i], r)
        return r

    def lit_at(self, p, lit):
        """literal occurs at symbolic position p"""
        return z3.Or(*[z3.And(p == i, *[self.T[i + k] == ord(lit[k]) for k in range(len(lit))]) for i in range(self.L - len(lit) + 1)]) \
            if self.L >= len(lit) else z3.BoolVal(False)

    def match_from(self, els, start):
        """returns (ok, [(gstart, gend)] for capture groups) for a match attempt whose first element starts at concrete `start`"""
        ok = z3.BoolVal(True)
        p = z3.IntVal(start)
        groups, open_ = [], []
        for e in els:
            if e[0] == "gopen":
                open_.append(p)
            elif e[0] == "gclose":
                groups.append((open_.pop(), p))
            elif e[0] == "alt":
                conds = [(self.lit_at(p, l), len(l)) for l in e[1]]
                ok = z3.And(ok, z3.Or(*[c for c, _ in conds]))
                np_ = p
                for c, n in reversed(conds):
                    np_ = z3.If(c, p + n, np_)
                p = np_
            elif e[0] in ("run+", "run*"):
                cs = e[1]
                tab = self.run_end(lambda c, cs=cs: in_set(c, cs))
                q = self.sel(tab, p)
                if e[0] == "run+":
                    ok = z3.And(ok, q > p)
                p = q
            else:
                ch = self.sel(self.T + [z3.BitVecVal(0, 8)], p)
                ok = z3.And(ok, p < self.L, in_set(ch, e[1]))
                p = p + 1
        return ok, groups


def first_match(M, els):
    """leftmost-first: the attempt with the smallest start that succeeds. Returns (found, groups as symbolic (s,e))."""
    attempts = [M.match_from(els, s) for s in range(M.L)]
    found = z3.Or(*[ok for ok, _ in attempts])
    ng = len(attempts[0][1])
    groups = []
    for g in range(ng):
        s_, e_ = z3.IntVal(0), z3.IntVal(0)
        for ok, gr in reversed(attempts):
            s_ = z3.If(ok, gr[g][0], s_)
            e_ = z3.If(ok, gr[g][1], e_)
        groups.append((s_, e_))
    return found, groups


# ---------------------------------------------------------------- compiler-side shapes

CONTINUATIONS = {
    # after the field name (possibly after whitespace): what a valid literal may continue with
    "entrypoint": ["", " @lazyLoad"],
    "field": [" {\n id\n}", "{\n id\n}", " @component {\n id\n}", "@component {\n id\n}", "($a: ID!) {\n id\n}", " \"\"\"d\"\"\" {\n id\n}", "\"\"\"d\"\"\" {\n id\n}"],
    "pointer": [" to Node {\n id\n}"],
}


def build_text(q, X, kw, n_ws1, n_t, n_ws2, n_ws3, n_f, cont, pfx="t"):
    """keyword ws1 Type ws2 '.' ws3 Field continuation ; returns (chars, spans dict)"""
    chars = []
    def sym(name, pred):
        c = z3.BitVec("%s_%s" % (pfx, name), 8)
        q.add(pred(c))
        return c
    ws_pred = lambda c: in_set(c, set(X["lexer_ws"]))
    for ch in kw:
        chars.append(z3.BitVecVal(ord(ch), 8))
    for i in range(n_ws1):
        chars.append(sym("w1_%d" % i, ws_pred))
    t0 = len(chars)
    for i in range(n_t):
        chars.append(sym("T%d" % i, (lambda c: in_ranges(c, ID_START)) if i == 0 else (lambda c: in_ranges(c, ID_CONT))))
    t1 = len(chars)
    for i in range(n_ws2):
        chars.append(sym("w2_%d" % i, ws_pred))
    chars.append(z3.BitVecVal(ord("."), 8))
    for i in range(n_ws3):
        chars.append(sym("w3_%d" % i, ws_pred))
    f0 = len(chars)
    for i in range(n_f):
        chars.append(sym("F%d" % i, (lambda c: in_ranges(c, ID_START)) if i == 0 else (lambda c: in_ranges(c, ID_CONT))))
    f1 = len(chars)
    for ch in cont:
        chars.append(z3.BitVecVal(ord(ch), 8))
    return chars, dict(kw=(0, len(kw)), T=(t0, t1), F=(f0, f1))


def shapes(B):
    out = []
    for kw in ("entrypoint", "field", "pointer"):
        for cont in CONTINUATIONS[kw]:
            for n_ws1 in range(1, B["ws"] + 1):
                for n_ws2 in range(0, B["ws"] + 1):
                    for n_ws3 in range(0, B["ws"] + 1):
                        for n_t in range(1, B["id"] + 1):
                            for n_f in range(1, B["id"] + 1):
                                out.append((kw, n_ws1, n_t, n_ws2, n_ws3, n_f, cont))
    return out


def cls_ws_around_dot(sh):
    return sh[3] > 0 or sh[4] > 0


def cls_glued_after_name(sh):
    cont = sh[6]
    return cont != "" and cont[0] not in " \t\r\n\x0c("


def model_text(m, chars):
    return bytes([m.eval(c, model_completion=True).as_long() for c in chars])


def main():
    t0 = time.time()
    T_ = tier()
    B = {"ws": 1, "id": 2} if T_ == "quick" else {"ws": 2, "id": 3}
    violations, known_lines, infra, queries, samples = [], [], [], [], []
    n_valid = 0
    kf = known_findings(PROP)
    known = {k: t for kind, k, t in kf if kind == "known" and k}
    X = None
    os.makedirs(os.path.join(REPLAYS, PROP), exist_ok=True)
    try:
        binary = build_native("header_driver")
        # ---- stage 0 (not solver-decided; a guard that needs only the regex literal, not its translation): systematically generated
        # headers through the real parser and the real regex crate
        import itertools, subprocess
        psrc_ = read_repo(F_PLUGIN)
        mlit = re.search(r'static OPERATION_REGEX: Lazy<Regex> =\s*Lazy::new\(\|\|\s*\{?\s*Regex::new\(\s*r(#*)"(.*?)"\1\s*,?\s*\)', psrc_, re.S)
        if mlit:
            pat_ = mlit.group(2)
            names = ["A", "Ab_c", "_x", "a1", "Q2_", "field", "entrypointX", "x_y_z", "B9"]
            ws1 = [" ", "  ", "\t", "\n"]
            around = ["", " "]
            conts = [" {\n id\n}", "{\n id\n}", " @component {\n id\n}", "@component {\n id\n}", "($a: ID!) {\n id\n}", ""]
            gtexts = []
            for kw in ("entrypoint", "field", "pointer"):
                for w in ws1:
                    for t_, f_ in itertools.product(names[:5], names):
                        for a1, a2 in itertools.product(around, repeat=2):
                            for c in (conts if kw != "entrypoint" else ["", " @lazyLoad", "\n"]):
                                if kw == "pointer":
                                    c = " to Node" + c if c.startswith((" {", "{")) else c
                                gtexts.append((kw + w + t_ + a1 + "." + a2 + f_ + c).encode())
            gtexts = gtexts[::3]
            pr_ = subprocess.run([binary, pat_], input="\n".join(t.hex() for t in gtexts) + "\n", capture_output=True, text=True, timeout=300)
            if pr_.returncode == 0:
                n_guard = 0
                for t, l in zip(gtexts, pr_.stdout.splitlines()):
                    c_, p_ = l.split(" P:")
                    c_ = c_[2:]
                    n_guard += 1
                    if c_ == "ERR":
                        continue            # the compiler rejects the literal: nothing to compare
                    kc = c_.split("|")
                    kp = p_.split("|") if p_ != "ERR" else None
                    same = kp is not None and kc[1:] == kp[1:] and ({"entrypoint": "E", "field": "F", "pointer": "F"}[kc[0]] == {"entrypoint": "E", "field": "F", "pointer": "F"}.get(kp[0]))
                    if not same:
                        rp = os.path.join(REPLAYS, PROP, "header_guard")
                        os.makedirs(rp, exist_ok=True)
                        with open(os.path.join(rp, "input.hex"), "w") as f:
                            f.write(t.hex() + "\n")
                        with open(os.path.join(rp, "REPLAY.md"), "w") as f:
                            f.write("Property C28 (native guard): literal %r: compiler reads %s, plugin reads %s\nRun: bash %s/replay.sh\n" % (t, c_, p_, rp))
                        with open(os.path.join(rp, "replay.sh"), "w") as f:
                            f.write("#!/bin/bash\n%s '%s' < %s/input.hex\nexit 1\n" % (binary, pat_.replace("'", "'\\''"), rp))
                        violations.append(("native guard: literal %r: compiler reads %s, plugin reads %s" % (t.decode("latin1"), c_, p_), rp))
                        samples.append({"literal": t.decode("latin1"), "compiler": c_, "plugin": p_, "stage": "native guard"})
                        break
                samples.append({"native_guard_headers": n_guard})
        X = extract()

        def native(texts):
            import subprocess
            p = subprocess.run([binary, X["pattern"]], input="\n".join(t.hex() for t in texts) + "\n", capture_output=True, text=True, timeout=120)
            if p.returncode != 0:
                raise Inconclusive("native driver failed: " + p.stderr[-300:])
            out = []
            for l in p.stdout.splitlines():
                c, p_ = l.split(" P:")
                out.append((c[2:], p_))
            return out

        # ---- translator validation: the encoded matcher vs the real regex crate on concrete probes
        probes = [b"field Query.foo {\n id\n}", b"entrypoint Query.Foo", b"pointer  A.b to Node {\n id\n}", b"entrypoint Query . Foo",
                  b"field Query.foo@component {\n id\n}", b"field Query.foo($a: ID!) {\n id\n}", b"xfield A.b", b"field A .b field C.d", b"fieldA.b",
                  b"entrypoint\tQ.F @lazyLoad", b"field Query.foo{\n id\n}"]
        nat = native(probes)
        for pr, (c_nat, p_nat) in zip(probes, nat):
            q = Query("C28_validate")
            chars = [z3.BitVecVal(b_, 8) for b_ in pr.strip()]
            M = Matcher(chars)
            found, groups = first_match(M, X["els"])
            if p_nat == "ERR":
                q.add(found)
            else:
                k_, t_, f_ = p_nat.split("|")
                def span_is(g, s):
                    # the captured text equals s: try every concrete start
                    return z3.Or(*[z3.And(g[0] == i, g[1] == i + len(s)) for i in range(len(pr)) if pr.strip()[i:i + len(s)] == s.encode()])
                q.add(z3.Not(z3.And(found, span_is(groups[0], k_), span_is(groups[1], t_), span_is(groups[2], f_))))
            if q.check(cross_check=False) != "unsat":
                raise Inconclusive("translator validation failed on %r: real regex gives %r" % (pr, p_nat))
            n_valid += 1
        samples.append({"translator_validation": [probes[0].decode(), nat[0][1]]})

        all_shapes = shapes(B)
        def solve(sh, extra_class=None):
            kw, n_ws1, n_t, n_ws2, n_ws3, n_f, cont = sh
            q = Query("C28_shape", solver_timeout_s=120)
            chars, sp = build_text(q, X, kw, n_ws1, n_t, n_ws2, n_ws3, n_f, cont)
            M = Matcher(chars)            # raw.trim(): the text starts with the keyword and ends with a non-space or the name
            found, groups = first_match(M, X["els"])
            agree = z3.And(found,
                           groups[0][0] == sp["kw"][0], groups[0][1] == sp["kw"][1],
                           groups[1][0] == sp["T"][0], groups[1][1] == sp["T"][1],
                           groups[2][0] == sp["F"][0], groups[2][1] == sp["F"][1])
            q.add(z3.Not(agree))
            r = q.check(cross_check=False)
            return r, q, chars

        def replay(text, what, tag):
            rp = os.path.join(REPLAYS, PROP, tag)
            os.makedirs(rp, exist_ok=True)
            with open(os.path.join(rp, "input.hex"), "w") as f:
                f.write(text.hex() + "\n")
            with open(os.path.join(rp, "REPLAY.md"), "w") as f:
                f.write("Property C28: %s\nLiteral: %r\nRun: bash %s/replay.sh  (prints C:<compiler reading> P:<plugin reading>; exit 1 = they differ)\n" % (what, text, rp))
            with open(os.path.join(rp, "replay.sh"), "w") as f:
                f.write("#!/bin/bash\nout=$(%s '%s' < %s/input.hex)\necho \"$out\"\nc=${out%%%% P:*}; c=${c#C:}; p=${out##*P:}\n[ \"$c\" = \"$p\" ] && exit 0 || exit 1\n" % (binary, X["pattern"].replace("'", "'\\''"), rp))
            return rp

        classes = {"whitespace-around-dot": cls_ws_around_dot, "token-glued-to-field-name": cls_glued_after_name}
        listed = [k for k in classes if k in known]
        n_q = n_unsat = 0
        witnessed = set()
        solver_s = 0.0
        # the shape queries are independent: solve them in forked workers, collect (verdict, model text)
        def worker(idxs):
            out = []
            for i in idxs:
                r, q, chars = solve(all_shapes[i])
                out.append([i, r, model_text(q.model(), chars).hex() if r == "sat" else None, q.time_s])
            return out
        nproc = 14
        kids = []
        for w in range(nproc):
            rfd, wfd = os.pipe()
            pid = os.fork()
            if pid == 0:
                os.close(rfd)
                try:
                    res = {"ok": worker(list(range(w, len(all_shapes), nproc)))}
                except BaseException as e:
                    res = {"err": repr(e)}
                with os.fdopen(wfd, "w") as f:
                    f.write(json.dumps(res))
                os._exit(0)
            os.close(wfd)
            kids.append((pid, rfd))
        solved = {}
        for pid, rfd in kids:
            with os.fdopen(rfd) as f:
                data = f.read()
            os.waitpid(pid, 0)
            res = json.loads(data) if data else {"err": "worker died"}
            if "err" in res:
                raise Inconclusive("shape worker failed: " + res["err"])
            for i, r, hx, ts_ in res["ok"]:
                solved[i] = (r, hx, ts_)
        for i, sh in enumerate(all_shapes):
            in_classes = [k for k in classes if classes[k](sh)]
            r, hx, ts_ = solved[i]
            n_q += 1
            solver_s += ts_
            if r == "unsat":
                n_unsat += 1
                continue
            text = bytes.fromhex(hx)
            c_nat, p_nat = native([text])[0]
            disagree = c_nat != "ERR" and c_nat != p_nat
            if c_nat == "ERR":
                infra.append("shape %r: the compiler rejects the generated literal %r (continuation list out of date?)" % (sh, text))
                continue
            if not disagree:
                infra.append("shape %r: model %r does not reproduce natively (compiler %s, plugin %s)" % (sh, text, c_nat, p_nat))
                continue
            inside = [k for k in in_classes if k in listed]
            if inside:
                k = inside[0]
                if k not in witnessed:
                    witnessed.add(k)
                    rp = replay(text, "compiler and plugin read the literal differently (known class %s)" % k, "known_" + k)
                    known_lines.append("key=%s %s (witness %r: compiler %s, plugin %s, replay %s)" % (k, known[k], text.decode("latin1"), c_nat, p_nat, rp))
                    samples.append({"shape": list(sh), "literal": text.decode("latin1"), "compiler": c_nat, "plugin": p_nat, "class": k})
            else:
                rp = replay(text, "compiler and plugin read the literal differently", "shape_%d" % n_q)
                violations.append(("literal %r: compiler reads %s, plugin reads %s" % (text.decode("latin1"), c_nat, p_nat), rp))
                samples.append({"shape": list(sh), "literal": text.decode("latin1"), "compiler": c_nat, "plugin": p_nat})
                if len(violations) >= 3:
                    break
        for k in listed:
            if k not in witnessed:
                log("  note: known finding %s no longer reproduces" % k)
        queries.append({"query": "C28 per-shape disagreement", "shape_queries": n_q, "unsat_shapes": n_unsat, "solver_s": round(solver_s, 2)})
        log("  %d shape queries, %d unsat, %d known-class witnesses, %d violations (%.1fs solver)" % (n_q, n_unsat, len(witnessed), len(violations), solver_s))
    except Inconclusive as e:
        infra.append(str(e))

    n_q = sum(q.get("shape_queries", 0) for q in queries)
    n_unsat = sum(q.get("unsat_shapes", 0) for q in queries)
    cov = {
        "explanation": "The plugin's OPERATION_REGEX (re-read from source) is translated into a leftmost-first matcher over symbolic characters; "
                       "the compiler's header language (keyword, lexer whitespace, identifiers, period; re-read from token_kind.rs / parse_iso_literal.rs) "
                       "is enumerated as shapes with all identifier and whitespace characters symbolic; per shape z3 decides whether the three captures "
                       "can differ from (keyword, type, field). Models are replayed with the real parser and the real regex crate.",
        "functions_encoded": ["swc_isograph_plugin OPERATION_REGEX + parse_iso_template_literal capture use + ArtifactType::from",
                              "isograph_lang_parser token_kind.rs (whitespace, Identifier, Period)", "parse_iso_literal keyword dispatch"],
        "extracted": None if not X else {"pattern": X["pattern"], "elements": [[e[0]] + ([e[1]] if e[0] == "alt" else [len(e[1])] if len(e) > 1 else []) for e in X["els"]], "lexer_ws": X["lexer_ws"], "keywords": X["keywords"]},
        "source_fingerprint": repo_fingerprint([F_PLUGIN, F_TOK, F_PARSE]),
        "bounds": dict(B, alphabet="ASCII; identifiers <= id characters, whitespace runs <= ws characters over the lexer's whitespace set", continuations=CONTINUATIONS),
        "queries": queries, "queries_discharged": n_q,
        "solver_time_s": round(sum(q["solver_s"] for q in queries), 2),
        "translator_validation_inputs_agreeing": n_valid,
        "evaluations": n_q + n_valid,
        "distinct_nontrivial": n_unsat + len(samples),
        "rule": "evaluations = per-shape SMT queries + probe literals on which the encoded matcher equals the real regex crate; distinct_nontrivial = "
                "shapes decided unsat + distinct sat models replayed natively",
        "samples": samples[:8] or [{"note": "none"}],
        "exhaustive": False,
        "known_findings_reported": known_lines,
    }
    assumptions = [
        "classification only (entrypoint vs field/pointer, type name, field name); path_for_artifact (PathBuf arithmetic, module settings) and the AST rewriting are outside the claim",
        "ASCII literals; the BOM (skipped by the lexer, not matched by \\s) and other non-ASCII whitespace are outside the bound",
        "the literal continues after the header with one of a fixed list of valid continuations (listed in the evidence); the solver decides identifier and whitespace characters, the runner enumerates lengths and continuations",
        "the regex subset supported by the translator: \\s, character classes, literals, each optionally with + or *, capturing groups of those or of an alternation of plain words, greedy runs that cannot overlap their continuation (checked); anything else is inconclusive",
    ]
    write_evidence(PROP, "other", cov, assumptions, time.time() - t0, len(violations))
    finish(PROP, violations, known_lines, infra)


if __name__ == "__main__":
    main()
