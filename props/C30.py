"""C30 (one clause) The value the schema parser reads from a block-string description is the specification's BlockStringValue.

C30 demands that descriptions read by the schema parser equal those a reference implementation reads, naming block strings
and escapes. `clean_block_string_literal` (graphql_schema_parser/src/description.rs) implements the specification's
BlockStringValue. Engine S: its statements and helpers are re-read from source (exact, layout-normalised forms; a
trailing `.replace(..)` chain on the joined result is the one recognised variation) and composed into a z3 string term over
enumerated shapes of a block string: up to 3 (4) lines separated by LF or CRLF, each line blank (only spaces / tabs) or
indentation + content, indentation and content characters symbolic, content units either a character or the escaped
triple quote `\\\"\"\"`. The specification is BlockStringValue of the June 2018 text (escape replaced, common indentation
removed from all lines but the first, blank leading / trailing lines dropped, joined with LF). z3 decides per shape whether
the two values can differ; models are replayed through the real parse_schema (native/schema_driver, public API)."""
import os, re, json, time, subprocess, itertools
import z3
from common import (tier, log, write_evidence, known_findings, finish, repo_fingerprint, REPLAYS)
from smt import Query, Inconclusive, build_native, read_repo, extract_fn, rust_str_literal

PROP = "C30"
F_SRC = "crates/graphql_schema_parser/src/description.rs"
ETQ = "\\\"\"\""
TQ = "\"\"\""


def norm(t):
    t = re.sub(r"//[^\n]*", "", t)
    t = re.sub(r"\s+", " ", t).strip()
    return re.sub(r" ?([(){}\[\],.;|&!=*<>]) ?", r"\1", t).replace(",)", ")").replace(",}", "}")


_HEADS = {
    False: """let inner = &source[3..source.len() - 3];
    let common_indent = get_common_indent(inner);""",
    True: """let inner = source[3..source.len() - 3].replace("\\r\\n", "\\n").replace('\\r', "\\n");
    let common_indent = get_common_indent(&inner);""",
}
_DEDENTS = {
    "skip-characters": "line.chars().skip(common_indent).collect::<String>()",
    "slice-or-keep": "line.get(common_indent..).unwrap_or(line).to_string()",
}
BODY_PREFIXES = {}
for _cr, _head in _HEADS.items():
    for _dk, _dexpr in _DEDENTS.items():
        BODY_PREFIXES[(_cr, _dk)] = norm("""{
    %s
    let mut formatted_lines = inner.lines().enumerate().map(|(i, line)| {
            if i == 0 { line.to_string() } else { %s }
        }).collect::<VecDeque<String>>();
    while formatted_lines.front().is_some_and(|line| line_is_whitespace(line)) { formatted_lines.pop_front(); }
    while formatted_lines.back().is_some_and(|line| line_is_whitespace(line)) { formatted_lines.pop_back(); }
    let lines_vec: Vec<String> = formatted_lines.into_iter().collect();
    lines_vec.join("\\n")""" % (_head, _dexpr))
COMMON_INDENT = norm("""{
    let lines = source.lines().skip(1);
    let mut common_indent: Option<usize> = None;
    for line in lines {
        if let Some((first_index, _)) = line.match_indices(is_not_whitespace).next()
            && common_indent.is_none_or(|indent| first_index < indent)
        { common_indent = first_index.wrap_some() }
    }
    common_indent.unwrap_or(0) }""")
LINE_WS = norm("{ !line.contains(is_not_whitespace) }")
NOT_WS = norm("{ c != ' ' && c != '\\t' }")


def body_of(src, name):
    t = extract_fn(src, name)
    return t[t.index("{", t.index("->")):]


COMMON_INDENT_NESTED = norm("""{
    let lines = source.lines().skip(1);
    let mut common_indent: Option<usize> = None;
    for line in lines {
        if let Some((first_index, _)) = line.match_indices(is_not_whitespace).next() {
            if common_indent.is_none_or(|indent| first_index < indent) { common_indent = Some(first_index) }
        }
    }
    common_indent.unwrap_or(0) }""")

COMMON_INDENT_ALL_LINES = norm("""{
    source.lines().skip(1).map(|line| line.find(is_not_whitespace).unwrap_or(line.len())).min().unwrap_or(0) }""")

CFG = {"prop": "C30", "file": F_SRC, "driver": "schema_driver", "what": "the description",
       "callers": [norm("parsed_str.map(|unparsed_text|clean_block_string_literal(unparsed_text).intern().into())")],
       "replay_note": "native replay goes through the public parse_schema on the block string followed by `type Q { a: Int }`",
       "outside": "the rest of SDL parsing (types, fields, arguments, defaults, directives, extensions, acceptance of exactly the valid documents) needs a reference implementation and is outside the claim"}


def extract(cfg=CFG):
    src = read_repo(cfg["file"])
    b = norm(body_of(src, "clean_block_string_literal"))
    hit = [(k, pre) for k, pre in BODY_PREFIXES.items() if b.startswith(pre)]
    if not hit:
        raise Inconclusive("encoding not regenerable: clean_block_string_literal is not the recognised statement sequence")
    (split_cr, dedent), pre = hit[0]
    rest = b[len(pre):]
    m = re.fullmatch(r"((?:\.replace\((?:\"(?:[^\"\\]|\\.)*\"|'(?:[^'\\]|\\.)+'),\"(?:[^\"\\]|\\.)*\"\))*)\}", rest)
    if not m:
        raise Inconclusive("encoding not regenerable: unrecognised tail of clean_block_string_literal: %s" % rest[:120])
    chain = [(rust_str_literal(a if a is not None else c), rust_str_literal(d)) for a, c, d in re.findall(r"\.replace\((?:\"((?:[^\"\\]|\\.)*)\"|'((?:[^'\\]|\\.)+)'),\"((?:[^\"\\]|\\.)*)\"\)", m.group(1))]
    for name, wants in (("get_common_indent", (COMMON_INDENT, COMMON_INDENT_NESTED, COMMON_INDENT_ALL_LINES)), ("line_is_whitespace", (LINE_WS,)), ("is_not_whitespace", (NOT_WS,))):
        if norm(body_of(src, name)) not in wants:
            raise Inconclusive("encoding not regenerable: %s changed" % name)
    indent_over = "all-lines" if norm(body_of(src, "get_common_indent")) == COMMON_INDENT_ALL_LINES else "lines-with-content"
    nsrc = norm(src)
    for c in cfg["callers"]:
        if c not in nsrc:
            raise Inconclusive("encoding not regenerable: the caller no longer stores clean_block_string_literal(token text): %s" % c[:80])
    return {"result_replace_chain": chain, "common_indent_over": indent_over, "lone_cr_ends_a_line": split_cr, "dedent": dedent}


S = z3.StringVal


def apply_chain(term, chain):
    for a, b in chain:
        term = z3.Replace(term, S(a), S(b)) if False else _replace_all_bounded(term, a, b)
    return term


def _replace_all_bounded(term, a, b, k=3):
    """str::replace replaces every occurrence; contents here hold at most k occurrences, so k nested first-occurrence
    replacements on the remainder are exact (each replacement continues after the replaced text)"""
    def rep_from(t, depth):
        if depth == 0:
            return t
        idx = z3.IndexOf(t, S(a), 0)
        head = z3.SubString(t, 0, idx)
        tail = z3.SubString(t, idx + len(a), z3.Length(t))
        return z3.If(idx < 0, t, z3.Concat(head, S(b), rep_from(tail, depth - 1)))
    return rep_from(term, k)


def build(shape, seps, tag, q, unescape_in_model_chain, indent_over="lines-with-content", split_cr=False, dedent="skip-characters"):
    """shape: per line None (blank) or a tuple of units ('p' plain / 'e' escaped triple quote). Returns (token text term,
    model value term, spec value term, concrete builder info)."""
    L = len(shape)
    ws, content_raw, content_val = [], [], []
    for i, line in enumerate(shape):
        w = z3.String("%s_ws%d" % (tag, i))
        q.add(z3.InRe(w, z3.Loop(z3.Union(z3.Re(" "), z3.Re("\t")), 0, 2)))
        ws.append(w)
        if line is None:
            content_raw.append(S("")); content_val.append(S(""))
            continue
        raws, vals = [], []
        for k, u in enumerate(line):
            if u == "e":
                raws.append(S(ETQ)); vals.append(S(TQ))
            else:
                c = z3.String("%s_c%d_%d" % (tag, i, k))
                alpha = [z3.Re("a"), z3.Re("\u00e9"), z3.Re("#")] + ([z3.Re(" ")] if k > 0 else [])
                q.add(z3.InRe(c, z3.Union(*alpha)))
                raws.append(c); vals.append(c)
        content_raw.append(z3.Concat(*raws) if len(raws) > 1 else raws[0])
        content_val.append(z3.Concat(*vals) if len(vals) > 1 else vals[0])
    inner = None
    for i in range(L):
        piece = z3.Concat(ws[i], content_raw[i])
        inner = piece if inner is None else z3.Concat(inner, S(seps[i - 1]), piece)
    token = z3.Concat(S(TQ), inner, S(TQ))

    def value(contents, chain, over="lines-with-content", split_cr=True, dedent="skip-characters"):
        """logical lines: the pieces, except that a lone CR does not end a line when split_cr is False (str::lines)"""
        groups = [[0]]
        for i in range(1, L):
            if seps[i - 1] == "\r" and not split_cr:
                groups[-1].append(i)
            else:
                groups.append([i])
        G = len(groups)
        g_ws = [ws[g[0]] for g in groups]
        g_blank = [len(g) == 1 and shape[g[0]] is None for g in groups]
        g_text = []
        for g in groups:
            t = z3.Concat(ws[g[0]], contents[g[0]])
            for i in g[1:]:
                t = z3.Concat(t, S("\r"), ws[i], contents[i])
            g_text.append(t)
        counted = [k for k in range(1, G) if not g_blank[k] or over == "all-lines"]
        def indent_of(k):
            # str::lines() yields no final empty line: an empty last line does not take part (only matters when blank lines count)
            if over == "all-lines" and k == G - 1 and g_blank[k]:
                return z3.If(z3.Length(g_ws[k]) == 0, z3.IntVal(1000), z3.Length(g_ws[k]))
            return z3.Length(g_ws[k])
        if counted:
            ci = indent_of(counted[0])
            for k in counted[1:]:
                ci = z3.If(indent_of(k) < ci, indent_of(k), ci)
            ci = z3.If(ci >= 1000, z3.IntVal(0), ci)
        else:
            ci = z3.IntVal(0)
        def cut(t):
            if dedent == "slice-or-keep":       # line.get(n..).unwrap_or(line): a line shorter than n is kept as it is
                return z3.If(z3.Length(t) >= ci, z3.SubString(t, ci, z3.Length(t)), t)
            return z3.SubString(t, ci, z3.Length(t))
        lines = [g_text[k] if k == 0 else cut(g_text[k]) for k in range(G)]
        if dedent == "slice-or-keep":
            # blankness is judged after the cut: a kept short line is still whitespace only, so the static blank flags stay right
            pass
        keep = [k for k in range(G) if not g_blank[k]]
        if not keep:
            return S("")
        out = lines[keep[0]]
        for k in range(keep[0] + 1, keep[-1] + 1):
            out = z3.Concat(out, S("\n"), lines[k])
        return apply_chain(out, chain)

    # the recognised replace chain acts on the joined result; within the alphabet (no quote or backslash outside the escape unit) every
    # occurrence of the escape is an escape unit, so replacing all occurrences equals taking each unit's replaced text
    if unescape_in_model_chain == []:
        mval = value(content_raw, [], indent_over, split_cr, dedent)
    elif unescape_in_model_chain == [(ETQ, TQ)]:
        mval = value(content_val, [], indent_over, split_cr, dedent)
    else:
        raise Inconclusive("encoding not regenerable: replace chain %r on the result is outside the supported subset" % (unescape_in_model_chain,))
    return token, mval, value(content_val, [], "lines-with-content", True), (ws,)


def spec_concrete(token):
    """BlockStringValue of the June 2018 specification, for the replay"""
    raw = token[3:-3].replace(ETQ, TQ)
    lines = re.split(r"\r\n|\n|\r", raw)
    common = None
    for line in lines[1:]:
        indent = len(line) - len(line.lstrip(" \t"))
        if indent < len(line) and (common is None or indent < common):
            common = indent
    if common:
        lines = [lines[0]] + [l[common:] for l in lines[1:]]
    while lines and not lines[0].strip(" \t"):
        lines.pop(0)
    while lines and not lines[-1].strip(" \t"):
        lines.pop()
    return "\n".join(lines)


def run_driver(binary, tokens):
    p = subprocess.run([binary], input="\n".join(t.encode().hex() for t in tokens) + "\n", capture_output=True, text=True, timeout=120)
    if p.returncode != 0:
        raise Inconclusive("schema_driver failed: " + p.stderr[-300:])
    return [json.loads(l) for l in p.stdout.splitlines()]


def zstr(v):
    return re.sub(r"\\u\{([0-9a-fA-F]+)\}", lambda m: chr(int(m.group(1), 16)), v.as_string())


def main(cfg=CFG):
    PROP = cfg["prop"]
    t0 = time.time()
    T_ = tier()
    B = {"lines": 3, "units": 2} if T_ == "quick" else {"lines": 4, "units": 2}
    violations, known_lines, infra, queries, samples = [], [], [], [], []
    n_valid = n_q = n_unsat = 0
    solver_s = 0.0
    X = None
    os.makedirs(os.path.join(REPLAYS, PROP), exist_ok=True)
    try:
        binary = build_native(cfg["driver"])
        # ---- stage 0 (not solver-decided; a guard that does not depend on the extractor): probe tokens through the real parser
        PROBES = ['"""aa"""', '"""\n a\n  a#\n \u00e9\n"""', '"""a\n  a"""', '"""\n\n \t\n  a \n\n"""', '"""  a\n  a\n \u00e9"""', '"""a\r\n a\r\n  #"""',
                  '"""\u00e9 #\n\t\u00e9"""', '"""a\\"""a"""', '"""\n  \\"""\n  a\n"""', '""""""', '"""  """', '"""\n  a\n"""', '"""hello\n    world\n      !"""', '"""a\r  a\r   #"""', '"""\r a\r"""']
        # plus a systematic battery: every block string of up to 3 lines whose lines are 0-3 spaces (or a tab) followed by nothing, `a`, or `a `,
        # joined by one kind of line terminator
        line_opts = [ind + c for ind in ("", " ", "  ", "   ", "\t") for c in ("", "a", "a ")]
        GUARD = list(PROBES)
        for L_ in (2, 3):
            for combo in itertools.product(line_opts, repeat=L_):
                for sep in ("\n", "\r\n"):
                    GUARD.append(TQ + sep.join(combo) + TQ)
        real_all = run_driver(binary, GUARD)
        real = real_all[:len(PROBES)]
        for tok, r in zip(GUARD, real_all):
            want = spec_concrete(tok)
            if r.get("error") or r.get("description") != want:
                rp = os.path.join(REPLAYS, PROP, "probe_guard")
                os.makedirs(rp, exist_ok=True)
                with open(os.path.join(rp, "input.hex"), "w") as f:
                    f.write(tok.encode().hex() + "\n")
                with open(os.path.join(rp, "REPLAY.md"), "w") as f:
                    f.write("Property C30 (native probe guard): block string %r: the parser reads %r, BlockStringValue is %r\nRun: bash %s/replay.sh\n" % (tok, r, want, rp))
                with open(os.path.join(rp, "replay.sh"), "w") as f:
                    f.write("#!/bin/bash\n%s < %s/input.hex\nexit 1\n" % (binary, rp))
                violations.append(("native probe guard: the description %r is read as %r; the specification's BlockStringValue is %r" % (tok, r.get("description"), want), rp))
                samples.append({"token": tok, "real": r, "spec": want, "stage": "probe guard"})
                break
        samples.append({"native_guard_block_strings": len(GUARD)})
        X = extract(cfg)
        chain = X["result_replace_chain"]
        # ---- translator validation: the composed term, pinned to the probe tokens it can express, equals the real parser
        def shape_of_token(tok):
            inner = tok[3:-3]
            seps = re.findall(r"\r\n|\n|\r", inner)
            lines = re.split(r"\r\n|\n|\r", inner)
            shape, pins = [], []
            for ln in lines:
                wsl = len(ln) - len(ln.lstrip(" \t"))
                content = ln[wsl:]
                if not content:
                    shape.append(None); pins.append((ln, []))
                    continue
                units, vals, i = [], [], 0
                while i < len(content):
                    if content.startswith(ETQ, i):
                        units.append("e"); vals.append(None); i += 4
                    else:
                        units.append("p"); vals.append(content[i]); i += 1
                if any(v is not None and v not in "a\u00e9# " for v in vals) or len(units) > 3:
                    return None
                shape.append(tuple(units)); pins.append((ln[:wsl], vals))
            return shape, seps, pins
        for tok, r in zip(PROBES, real):
            so = shape_of_token(tok)
            if so is None or len(so[0]) > 4:
                continue
            shape, seps, pins = so
            q = Query("C30_validate", simple=True)
            token, mval, sval, _ = build(shape, seps, "v", q, chain, X["common_indent_over"], X["lone_cr_ends_a_line"], X["dedent"])
            q.add(token == S(tok))
            out = z3.String("out")
            q.add(out == mval)
            if q.check(cross_check=False) != "sat":
                continue        # the probe is outside the model's alphabet (e.g. trailing blanks inside a blank line are fine, other characters are not)
            got = zstr(q.model().eval(out, model_completion=True))
            if got != r.get("description"):
                raise Inconclusive("translator validation failed on %r: encoding %r, real %r" % (tok, got, r.get("description")))
            n_valid += 1
        if n_valid < 5:
            raise Inconclusive("translator validation covered only %d probes" % n_valid)

        line_kinds = [None] + [u for k in range(1, B["units"] + 1) for u in itertools.product("pe", repeat=k)]
        done = False
        for L in range(1, B["lines"] + 1):
            for shape in itertools.product(line_kinds, repeat=L):
                if all(s is None for s in shape):
                    continue
                if L >= 3 and sum(1 for s in shape if s is not None and len(s) > 1) > 1:
                    continue            # bound: at most one line with two units once there are three or more lines
                for seps in itertools.product(("\n", "\r\n", "\r"), repeat=L - 1):
                    if L > 2 and len(set(seps)) > 1:
                        continue        # bound: one kind of line terminator per string once there are three or more lines
                    q = Query("C30_shape", solver_timeout_s=60, simple=True)
                    token, mval, sval, _ = build(list(shape), list(seps), "s", q, chain, X["common_indent_over"], X["lone_cr_ends_a_line"], X["dedent"])
                    q.add(mval != sval)
                    r = q.check(cross_check=False)
                    n_q += 1
                    solver_s += q.time_s
                    if r == "unsat":
                        n_unsat += 1
                        continue
                    if r != "sat":
                        raise Inconclusive("solver answered %s on shape %r" % (r, shape))
                    tok = zstr(q.model().eval(token, model_completion=True))
                    rr = run_driver(binary, [tok])[0]
                    want = spec_concrete(tok)
                    samples.append({"token": tok, "real": rr, "spec": want})
                    if rr.get("description") == want:
                        infra.append("model %r does not reproduce natively (parser reads %r)" % (tok, rr))
                        continue
                    rp = os.path.join(REPLAYS, PROP, "shape_%d" % n_q)
                    os.makedirs(rp, exist_ok=True)
                    with open(os.path.join(rp, "input.hex"), "w") as f:
                        f.write(tok.encode().hex() + "\n")
                    with open(os.path.join(rp, "REPLAY.md"), "w") as f:
                        f.write("Property C30: block string %r: the parser reads %r, BlockStringValue is %r\nRun: bash %s/replay.sh\n" % (tok, rr, want, rp))
                    with open(os.path.join(rp, "replay.sh"), "w") as f:
                        f.write("#!/bin/bash\n%s < %s/input.hex\nexit 1\n" % (binary, rp))
                    violations.append(("the description %r is read as %r; the specification's BlockStringValue is %r" % (tok, rr.get("description"), want), rp))
                    if len(violations) >= 3:
                        done = True
                        break
                if done:
                    break
            if done:
                break
        queries.append({"query": "C30 parser value != BlockStringValue per block-string shape", "shape_queries": n_q, "unsat_shapes": n_unsat, "solver_s": round(solver_s, 2)})
        log("  %d shape queries, %d unsat, %d violations (%.1fs solver)" % (n_q, n_unsat, len(violations), solver_s))
    except Inconclusive as e:
        infra.append(str(e))

    cov = {
        "explanation": "One clause of " + PROP + " (block-string values): clean_block_string_literal and its helpers are re-read from source and composed into a z3 string term over "
                       "enumerated block-string shapes with symbolic indentation and content; the specification's BlockStringValue is the oracle; models are replayed through the real parser (public API).",
        "functions_encoded": [cfg["file"] + "::clean_block_string_literal", "get_common_indent", "line_is_whitespace", "is_not_whitespace", "its callers"],
        "extracted": X, "source_fingerprint": repo_fingerprint([cfg["file"]]),
        "bounds": dict(B, indentation="0..2 spaces/tabs per line", content="units: a character of {a, \u00e9, #, space} or the escaped triple quote", terminators="LF, CRLF or CR"),
        "queries": queries, "queries_discharged": n_q, "solver_time_s": round(solver_s, 2),
        "translator_validation_inputs_agreeing": n_valid,
        "evaluations": n_q + n_valid, "distinct_nontrivial": n_unsat + len(samples),
        "rule": "evaluations = per-shape SMT queries + probe tokens on which the composed term equals the real parser; distinct_nontrivial = shapes decided unsat + models replayed natively",
        "samples": samples[:6] or [{"note": "none"}], "exhaustive": False, "known_findings_reported": known_lines,
    }
    assumptions = [
        "PARTIAL: only the value of block strings; " + cfg["outside"],
        "characters other than the listed alphabet are outside the bound",
        cfg["replay_note"],
    ]
    write_evidence(PROP, "other", cov, assumptions, time.time() - t0, len(violations))
    finish(PROP, violations, known_lines, infra)


if __name__ == "__main__":
    main()
