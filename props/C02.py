"""C02 Memoized functions re-run only when something they read changed - the write path only."""
from kprop import run_k_property

SPECS = [
    dict(name="c02_equal_value_write_keeps_stamp", batch="st", tiers=("quick", "thorough"),
         bound="3 writes before the write under test (one keyed source, one unrelated source written twice), all four values symbolic u8",
         what="an equal-value write leaves epoch and the source's time_updated untouched, also after an unrelated change; a changed value advances the epoch by one and stamps the source with it", timeout=1200,
         replay_timeout=420,
         native_fallback=dict(dir="/verif/native/pico_demo", cmd=["cargo", "test", "--test", "equal_value_write"],
                              what="native/pico_demo tests/equal_value_write.rs: set(A=1); call f; change B; set(A=1) again must not re-execute f")),
    dict(name="c02_remove_advances_epoch_once", batch="st", tiers=("quick", "thorough"), bound="set, remove, remove again; symbolic value",
         what="removing a present source advances the epoch, removing an absent one changes nothing", timeout=1200),
]
FUNCTIONS = ["pico::Storage::{set, remove, get}", "InternalStorage::{set_source, remove_source, get_source_node, insert_source_node}", "Epoch::increment"]
FILES = ["crates/pico/src/database.rs", "crates/pico/src/epoch.rs", "crates/pico/src/source.rs"]
ASSUMPTIONS = [
    "PARTIAL: only the source write path (the revision stamps that dependents compare against). Whole memoized-call histories are out of reach: a concrete 3-call history through execute_memoized_function did not finish symbolic execution in 20 minutes (function-pointer dispatch over every memoized closure times recursion, DESIGN.md section 2), so execution counts, backdating and GC are outside the claim",
    "dashmap / boxcar / lru / tracing / parking_lot / once_cell / hashbrown replaced by the sequential stand-ins under /verif/shims (map, append-only vector and lock contracts)",
    "Source implemented by hand with constant keys (the derive hashes a TypeId with SipHash, which CBMC cannot decide)",
]

def main():
    run_k_property("C02", "k_pico", SPECS, functions=FUNCTIONS, files=FILES, assumptions=ASSUMPTIONS, level="other",
                   explanation="CBMC decides the stamp discipline of pico's source write path for all values: the mechanism C02 names first ('equal-value write leaves the source untouched'). It is a partial claim about one clause of C02; the defect it found (fixed) is demonstrated at the memoized-call level by a native test.")

if __name__ == "__main__":
    main()
