"""C06 The lock-free arena hands out each slot once and reads back what was added."""
from kprop import run_k_property

Q, T = ("quick", "thorough"), ("thorough",)
SPECS = [
    dict(name="c06_index_in_bounds", batch="idx", tiers=Q, bound="all i in [128, 2^32)", what="index(i) lies inside bucket a and bucket_capacity(a)+b == i"),
    dict(name="c06_index_injective", batch="idx", tiers=Q, bound="all pairs i != j in [128, 2^32)", what="index is injective"),
    dict(name="c06_index_monotone", batch="idx", tiers=Q, bound="all i in [128, 2^32-1)", what="consecutive indices: same bucket next offset, or next bucket offset 0"),
    dict(name="c06_bucket_capacity_shape", batch="idx", tiers=Q, bound="all 25 buckets", what="capacities telescope by 2 down to MIN_SIZE"),
    dict(name="c06_ref_index_roundtrip", batch="idx", tiers=Q, bound="all unbiased indices <= MAX_INDEX", what="Ref::from_index/index round trip; Ref equality == index equality"),
    dict(name="c06_seq_add_get_4", batch="seq", tiers=Q, bound="n <= 4 symbolic u16 adds, unwind 6", what="get(add(x))==x, dense distinct refs, len"),
    dict(name="c06_seq_drop_once", batch="seq", tiers=Q, bound="n <= 3 adds, unwind 27", what="drop of arena drops each element exactly once"),
    dict(name="c06_seq_bucket_boundary", batch="seq", tiers=Q, bound="126 concrete + 4 symbolic adds, unwind 132", what="adds across the first bucket boundary read back", timeout=900),
    dict(name="c06_seq_drop_two_buckets", batch="seq2", tiers=Q, bound="127..130 adds, unwind 132", what="drop across two buckets drops each element once", timeout=1800),
    dict(name="c06_sched_two_adders_empty", batch="sched", tiers=Q, bound="2 threads, B = one complete add_get placed at any of A's scheduling points (symbolic), empty arena, symbolic elements", what="distinct refs, each reads back its own element, len==2; includes both adds racing to allocate the first bucket", timeout=900),
    dict(name="c06_sched_reader_during_add", batch="sched", tiers=Q, bound="reader thread placed at any scheduling point of a concurrent add", what="earlier add reads back during a concurrent add; len monotone", timeout=900),
    dict(name="c06_sched_two_adders_boundary", batch="schedT1", tiers=T, bound="2 threads, 127 elements present (bucket boundary)", what="adds straddling the bucket boundary under every nested schedule", timeout=1800),
    dict(name="c06_sched_two_adders_second_bucket", batch="schedT2", tiers=T, bound="2 threads, 128 elements present (both race for bucket 23)", what="race for the second bucket allocation", timeout=1800),
    dict(name="c06_sched_two_adders_drop", batch="schedT3", tiers=T, bound="2 threads, empty arena, arena dropped afterwards", what="every element dropped exactly once after any nested schedule", timeout=2400, mem_gb=20),
]
FUNCTIONS = ["intern::atomic_arena::index", "bucket_capacity", "AtomicArena::{new,add,add_get,get,len,slice_for_slot,slice_for_slot_slow}",
             "impl Drop for AtomicArena", "Ref::{index,from_index,from_raw}"]
FILES = ["relay-crates/intern/src/atomic_arena.rs", "relay-crates/intern/src/verif_hooks.rs"]
ASSUMPTIONS = [
    "bounded claim: holds for every input/schedule inside each harness's stated bound, nothing is claimed outside it",
    "parking_lot::Mutex replaced by the sequential stand-in /verif/shims/parking_lot (mutual exclusion contract; would-block = pruned schedule)",
    "atomics are sequentially consistent in CBMC: Relaxed/Acquire/Release weak-memory effects are not modelled",
    "schedule harnesses cover interleavings in which operations nest (B runs to completion inside a window of A, C inside a window of B); A1 B1 A2 B2 style interleavings where both are half-done and both progress are outside the bound",
    "Vec::with_capacity / allocator as modelled by CBMC (allocation never fails)",
]

def main():
    run_k_property("C06", "k_intern", SPECS, functions=FUNCTIONS, files=FILES, assumptions=ASSUMPTIONS,
                   level="model_checking",
                   explanation="Real atomic_arena.rs compiled by Kani; index arithmetic decided for the whole u32 range, sequential add/get/drop for small symbolic runs, and 2-3 thread schedules as symbolic preemption choices at every atomic operation / lock acquisition.")

if __name__ == "__main__":
    main()
