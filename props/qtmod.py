"""Shared clause: the query_text module (`export default '<operation text>';`).

The compiler prints the operation text (graphql_network_protocol::query_text, Format::Pretty: line continuations
`\\`+LF) and writes it between single quotes into a JavaScript module (artifact_content). String literal arguments are
copied verbatim from the iso literal. Two questions, decided per shape of a string literal (sequence of units: plain
character / two-character escape / \\uXXXX escape, every character symbolic):
  syntax (C13): the module is one well-formed single-quoted string literal ending at the final quote;
  value  (C09): the string the runtime evaluates (and sends to the server) is the operation text the compiler printed
                (minus the line continuations).
The module template (with its .replace chain) and the string arm of the operation printer are re-read from source, the
context around the string is taken from the real printer (marker split, validated on probes), the alias chunk is the
extracted character map of to_alias_str_chunk, the lexer classes come from token_kind.rs. lib/jslit.py executes the replace
chain and the ECMAScript string-literal lexer symbolically; every fork and every verdict is a z3 query."""
import os, re, json, time, subprocess, shutil, itertools, tempfile
import z3
from common import (log, REPLAYS, REPO, BUILD, run, env_offline)
from smt import Inconclusive, read_repo, extract_fn, rust_str_literal, NATIVE
import jslit
from jslit import BS, SQ, LF, CR, W

F_QT = "crates/graphql_network_protocol/src/query_text.rs"
ART_DIR = "crates/artifact_content/src"
FILES = [F_QT, "crates/isograph_lang_parser/src/token_kind.rs", "crates/isograph_lang_types/src/declarations/selection_argument.rs",
         ART_DIR + "/entrypoint_artifact.rs", ART_DIR + "/imperatively_loaded_fields.rs"]
HELPER = "query_text_file_content"
MARK = "MARKmark"


def need(m, what):
    if not m:
        raise Inconclusive("encoding not regenerable: " + what)
    return m


def parse_replace_chain(text):
    """`.replace('c', "s")` / `.replace("a", "b")` chain -> [(pattern, replacement)]; anything else is not supported"""
    reps, rest = [], text.strip()
    while rest:
        m = re.match(r"""\.replace\(\s*(?:'((?:[^'\\]|\\.)+)'|"((?:[^"\\]|\\.)*)")\s*,\s*"((?:[^"\\]|\\.)*)"\s*\)""", rest)
        need(m, "module text transform %r is outside the supported subset (.replace chains)" % rest[:80])
        pat = rust_str_literal(m.group(1) if m.group(1) is not None else m.group(2))
        reps.append((pat, rust_str_literal(m.group(3))))
        rest = rest[m.end():].strip()
    return reps


def extract():
    X = {}
    # ---- the module template(s): every quoted default export of artifact_content must be a recognised writer of the operation text
    templates, n_quoted, n_inline, n_helper_calls, helper = [], 0, 0, 0, None
    for fn_ in sorted(os.listdir(os.path.join(REPO, ART_DIR))):
        if not fn_.endswith(".rs"):
            continue
        src = re.sub(r"//[^\n]*", "", read_repo(ART_DIR + "/" + fn_))
        n_quoted += len(re.findall(r"export default ['\"`\\]", src))
        if fn_ != "lib.rs":
            n_helper_calls += len(re.findall(r"(?<!fn )\b%s\(" % HELPER, src))
        for m in re.finditer(r'format!\(\s*"((?:[^"\\]|\\.)*)"\s*\)', src):
            t = rust_str_literal(m.group(1))
            if "{query_text}" in t:
                n_inline += 1
                if not any(x["kind"] == "inline" and x["template"] == t for x in templates):
                    templates.append(dict(kind="inline", template=t, chain=[], file=fn_))
        if fn_ != "lib.rs" and re.search(r"fn %s\(" % HELPER, src):        # lib.rs only holds the cfg(kani) wrapper
            if helper is not None:
                raise Inconclusive("encoding not regenerable: two definitions of %s" % HELPER)
            body = re.sub(r"\s+", " ", extract_fn(src, HELPER))
            m = need(re.search(r'format!\( ?"((?:[^"\\]|\\.)*)", query_text ?(?:\.0)?((?: ?\.replace\((?:[^()"\']|"(?:[^"\\]|\\.)*"|\'(?:[^\'\\]|\\.)*\')*\))*) ?,? ?\)', body), "body of %s" % HELPER)
            helper = dict(kind="helper", template=rust_str_literal(m.group(1)).replace("{}", "{query_text}"), chain=parse_replace_chain(m.group(2)), file=fn_)
            rest = body[:m.start()] + body[m.end():]
            if re.search(r"\b(replace|push|push_str|insert|trim|format!)\b", rest):
                raise Inconclusive("encoding not regenerable: %s does more than one format! over a replace chain" % HELPER)
    if helper:
        templates.insert(0, helper)
        if n_helper_calls == 0:
            raise Inconclusive("encoding not regenerable: %s is defined but never called" % HELPER)
    if not templates:
        raise Inconclusive("encoding not regenerable: no query_text module template found")
    if n_quoted != n_inline + (1 if helper else 0):
        raise Inconclusive("encoding not regenerable: %d quoted default exports in artifact_content but %d recognised operation-text writers" % (n_quoted, n_inline + (1 if helper else 0)))
    for t in templates:
        m = need(re.fullmatch(r"(export default ')\{query_text\}(';)", t["template"]), "module template %r is not export default '<text>';" % t["template"])
        t["pre"], t["post"] = m.group(1), m.group(2)
    X["writers"] = dict(quoted_default_exports=n_quoted, inline=n_inline, helper_calls=n_helper_calls)
    X["templates"] = templates
    # ---- the operation printer: the string arm copies the literal between double quotes, Pretty uses continuations
    qt = re.sub(r"//[^\n]*", "", read_repo(F_QT))
    need(re.search(r'NonConstantValue::String\(s\) => format!\("\\"\{s\}\\""\)', qt), "string arm of serialize_non_constant_value_for_graphql is not format!(\"\\\"{s}\\\"\")")
    need(re.search(r'Format::Pretty => \("\\\\\\n",', qt), "Pretty line separator is not a backslash-newline continuation")
    # ---- alias chunk character map and the lexer classes (shared with C12)
    import C12
    R = C12.extract_rust()
    X["alias_keep"], X["alias_repl"] = R["str_keep"], ord(R["str_repl"])
    LX = C12.extract_lexer()
    tok = read_repo("crates/isograph_lang_parser/src/token_kind.rs")
    need(re.search(r'#\[regex\(r#"\\\\u\[0-9A-Fa-f\]\[0-9A-Fa-f\]\[0-9A-Fa-f\]\[0-9A-Fa-f\]"#\)\]\s*EscapedUnicode,', tok), "EscapedUnicode regex")
    X["plain_ranges"] = LX["plain_ranges"]
    X["escapes"] = [ord(c) for c in LX["escapes"]]
    return X


def build_driver(helper):
    d = os.path.join(NATIVE, "qt_driver")
    shutil.copyfile(os.path.join(REPO, "Cargo.lock"), os.path.join(d, "Cargo.lock"))
    cmd = ["cargo", "build", "--release"] + (["--features", "helper"] if helper else [])
    rc, out, wall, to = run(cmd, cwd=d, timeout=2400, env=env_offline({"CARGO_TARGET_DIR": os.path.join(BUILD, "native_hooks"), "RUSTFLAGS": "--cfg kani"}))
    if rc != 0:
        raise Inconclusive("native driver qt_driver does not build against /repo (hooks on, helper=%s): %s" % (helper, out[-800:]))
    return os.path.join(BUILD, "native_hooks", "release", "qt_driver")


CONTEXTS = {
    "scalar-argument": lambda raw: [{"t": "scalar", "name": "f", "args": [["a", {"k": "str", "raw": raw}]]}],
    "object-entry": lambda raw: [{"t": "linked", "name": "g", "args": [["o", {"k": "obj", "e": [["k", {"k": "str", "raw": raw}]]}]], "children": [{"t": "scalar", "name": "h", "args": []}]}],
}


def run_driver(binary, ctxname, raws):
    inp = "\n".join(json.dumps({"format": "pretty", "sel": CONTEXTS[ctxname](r)}) for r in raws) + "\n"
    p = subprocess.run([binary], input=inp, capture_output=True, text=True, timeout=120)
    if p.returncode != 0:
        raise Inconclusive("qt_driver failed: " + p.stderr[-300:])
    return [json.loads(l) for l in p.stdout.splitlines()]


NODE_JUDGE = r"""
const fs = require('fs'), path = require('path'), os = require('os');
const items = JSON.parse(fs.readFileSync(0, 'utf8'));
(async () => {
  const dir = fs.mkdtempSync(path.join(os.tmpdir(), 'qtmod'));
  const out = [];
  for (let i = 0; i < items.length; i++) {
    const f = path.join(dir, 'm' + i + '.mjs');
    fs.writeFileSync(f, items[i]);
    try { const m = await import(f); out.push({ok: true, value: m.default}); }
    catch (e) { out.push({ok: false, error: String(e).slice(0, 120)}); }
  }
  fs.rmSync(dir, {recursive: true, force: true});
  console.log(JSON.stringify(out));
})();
"""


def node_import(modules):
    p = subprocess.run(["node", "-e", NODE_JUDGE], input=json.dumps(modules), capture_output=True, text=True, timeout=120)
    if p.returncode != 0:
        raise Inconclusive("node judge failed: " + p.stderr[-300:])
    return json.loads(p.stdout)


def apply_chain_concrete(text, chain):
    for a, b in chain:
        text = text.replace(a, b)
    return text


def alias_map_concrete(X, raw):
    return "".join(c if any(a <= ord(c) <= b for a, b in X["alias_keep"]) else chr(X["alias_repl"]) for c in raw)


def strip_continuations(text):
    return text.replace("\\\n", "")


def module_for(X, T, binary, ctxname, raws):
    """the real module texts: through the helper hook when the template is the helper, otherwise the real operation text
    inside the inline template read from source"""
    outs = run_driver(binary, ctxname, raws)
    res = []
    for o in outs:
        if T["kind"] == "helper":
            if o["module"] is None:
                raise Inconclusive("qt_driver built without the helper although the source has one")
            res.append((o["text"], o["module"]))
        else:
            res.append((o["text"], T["pre"] + o["text"] + T["post"]))
    return res


def unit_terms(X, shape, tag):
    """shape: tuple of 'p' | 'e' | 'u'. returns (raw terms of the literal, class constraints, symbolic vars)"""
    terms, cls, vs = [], [], []
    for i, u in enumerate(shape):
        if u == "p":
            c = z3.BitVec("%s_p%d" % (tag, i), W)
            cls.append(jslit.in_ranges(c, X["plain_ranges"]))
            cls.append(z3.Not(z3.And(z3.UGE(c, 0xD800), z3.ULE(c, 0xDFFF))))     # a Rust str holds no surrogates
            terms.append(c); vs.append(c)
        elif u == "e":
            c = z3.BitVec("%s_e%d" % (tag, i), W)
            cls.append(z3.Or(*[c == v for v in X["escapes"]]))
            terms += [BS, c]; vs.append(c)
        else:
            hs = [z3.BitVec("%s_u%d_%d" % (tag, i, k), W) for k in range(4)]
            for h in hs:
                cls.append(jslit.in_ranges(h, jslit.HEX))
            terms += [BS, ord("u")] + hs; vs += hs
    return terms, cls, vs


def run_clause(which, T_, prop):
    """which: 'syntax' | 'value'. Returns dict(violations, infra, stats, samples, extracted)."""
    K = 2 if T_ == "quick" else 4
    res = dict(violations=[], infra=[], samples=[], extracted=None, n_valid=0, n_queries=0, solver_s=0.0, n_shapes=0, n_paths=0, n_unsat=0, bounds={"units": K})
    os.makedirs(os.path.join(REPLAYS, prop), exist_ok=True)
    # ---- stage 0 (not solver-decided; a guard that does not depend on the extractor; needs the helper hook, i.e. the helper itself):
    # string literals of up to 2 units through the real printer and the real module writer, judged by node
    guard_done = False
    try:
        gbin = build_driver(True)
        UN = ["a", " ", "'", "\u00e9", '\\"', "\\\\", "\\n", "\\/", "\\u0041", "\\u0027", "\\u005c", "u", "x", "0", "\\t"]
        graws = [""] + UN + [a + b for a in UN for b in UN]
        for ctxname in CONTEXTS:
            outs = run_driver(gbin, ctxname, graws)
            mods = [o["module"] for o in outs]
            if any(m is None for m in mods):
                raise Inconclusive("helper missing")
            judged = node_import(mods)
            for raw, o, nj in zip(graws, outs, judged):
                want = strip_continuations(o["text"])
                bad = (not nj["ok"]) if which == "syntax" else (nj["ok"] and nj["value"] != want)
                if bad:
                    rp = os.path.join(REPLAYS, prop, "query_text_module_guard_%s" % which)
                    os.makedirs(rp, exist_ok=True)
                    with open(os.path.join(rp, "input.json"), "w") as f:
                        f.write(json.dumps({"format": "pretty", "sel": CONTEXTS[ctxname](raw)}) + "\n")
                    with open(os.path.join(rp, "module.mjs"), "w") as f:
                        f.write(o["module"])
                    with open(os.path.join(rp, "REPLAY.md"), "w") as f:
                        f.write("Property %s (native guard): string literal \"%s\" (%s)\nreal module text (module.mjs):\n%s\nnode: %r\nprinted operation: %r\nRun: bash %s/replay.sh\n" % (prop, raw, ctxname, o["module"], nj, want, rp))
                    with open(os.path.join(rp, "replay.sh"), "w") as f:
                        f.write("#!/bin/bash\n%s < %s/input.json\nnode %s/module.mjs; exit 1\n" % (gbin, rp, rp))
                    if which == "syntax":
                        res["violations"].append(("native guard: the query_text module for the argument \"%s\" is not a well-formed module: %r -> %s" % (raw, o["module"], nj.get("error")), rp))
                    else:
                        res["violations"].append(("native guard: the query_text module for the argument \"%s\" evaluates to %r but the compiler printed %r" % (raw, nj["value"], want), rp))
                    res["samples"].append({"string_literal_source": raw, "context": ctxname, "module": o["module"], "node": nj, "stage": "native guard"})
                    raise StopIteration
            guard_done = True
        res["samples"].append({"native_guard_string_literals": len(graws) * len(CONTEXTS)})
    except StopIteration:
        pass
    except Inconclusive:
        pass            # without the helper (inline template) there is no real module writer to call; the decision below still runs
    X = extract()
    res["extracted"] = {k: v for k, v in X.items()}
    has_helper = any(t["kind"] == "helper" for t in X["templates"])
    binary = build_driver(has_helper)
    probes = ["plain", "it's", "a\\nb", "q\\\"q", "back\\\\slash", "u\\u0041x", "tab\there", "sl\\/ash", "'", "\\\\'", "caf\u00e9 \u4e2d"]
    for T in X["templates"]:
        for ctxname in CONTEXTS:
            # ---- context from the real printer (marker split) and translator validation on probes
            (mt, mm), = module_for(X, T, binary, ctxname, [MARK])
            parts = mt.split(MARK)
            if len(parts) != 3:
                raise Inconclusive("marker split: the real operation text contains the marker %d times" % (len(parts) - 1))
            p0, p1, p2 = parts
            real = module_for(X, T, binary, ctxname, probes)
            for pr, (rt, rm) in zip(probes, real):
                model_text = p0 + alias_map_concrete(X, pr) + p1 + pr + p2
                if model_text != rt:
                    raise Inconclusive("translator validation failed (operation text) on %r: model %r real %r" % (pr, model_text, rt))
                model_mod = T["pre"] + apply_chain_concrete(model_text, T["chain"]) + T["post"]
                if model_mod != rm:
                    raise Inconclusive("translator validation failed (module text) on %r: model %r real %r" % (pr, model_mod, rm))
                # the symbolic executor, pinned to the probe, agrees with node on well-formedness and value
                ctx = jslit.Ctx([])
                paths = [([], [ord(c) for c in model_text])]
                for a, b in T["chain"]:
                    paths = jslit.sym_replace(ctx, paths, [ord(c) for c in a], [ord(c) for c in b])
                (cons, body), = paths
                outs = list(jslit.sym_js_single_quoted(ctx, cons, body))
                if len(outs) != 1:
                    raise Inconclusive("translator validation failed: %d lexer paths for a concrete text" % len(outs))
                _, st, val = outs[0]
                nj = node_import([rm])[0]
                if (st == "ok") != nj["ok"] or (nj["ok"] and "".join(chr(v) for v in val) != nj["value"]):
                    raise Inconclusive("translator validation failed (literal lexer) on %r: model %s %r, node %r" % (pr, st, val, nj))
                res["n_valid"] += 1
            # ---- the decision, per shape
            done = False
            for k in range(0, K + 1):
                for shape in itertools.product("peu", repeat=k):
                    res["n_shapes"] += 1
                    s_terms, cls, vs = unit_terms(X, shape, "s")
                    alias = [c if isinstance(c, int) and any(a <= c <= b for a, b in X["alias_keep"]) else
                             (X["alias_repl"] if isinstance(c, int) else z3.If(jslit.in_ranges(c, X["alias_keep"]), c, z3.BitVecVal(X["alias_repl"], W))) for c in s_terms]
                    text = [ord(c) for c in p0] + alias + [ord(c) for c in p1] + s_terms + [ord(c) for c in p2]
                    intended = [ord(c) for c in strip_continuations(p0)] + alias + [ord(c) for c in strip_continuations(p1)] + s_terms + [ord(c) for c in strip_continuations(p2)]
                    ctx = jslit.Ctx(cls)
                    paths = [([], text)]
                    for a, b in T["chain"]:
                        paths = jslit.sym_replace(ctx, paths, [ord(c) for c in a], [ord(c) for c in b])
                    witness = None
                    for cons, body in paths:
                        for c2, st, val in jslit.sym_js_single_quoted(ctx, cons, body):
                            res["n_paths"] += 1
                            if which == "syntax":
                                if st == "ok":
                                    continue
                                r, m = ctx.check(c2)
                                if r == "sat":
                                    witness = (m, st)
                                elif r == "unknown":
                                    raise Inconclusive("solver answered unknown on a malformed-literal path")
                            else:
                                if st != "ok":
                                    continue        # malformed modules are the syntax clause's subject (C13)
                                if len(val) != len(intended):
                                    r, m = ctx.check(c2)
                                    if r == "sat":
                                        witness = (m, "evaluated text has %d characters, printed operation %d" % (len(val), len(intended)))
                                    elif r == "unknown":
                                        raise Inconclusive("solver answered unknown on a value path")
                                else:
                                    diff = [jslit.term(a) != jslit.term(b) for a, b in zip(val, intended) if not (isinstance(a, int) and isinstance(b, int) and a == b)]
                                    if any(isinstance(a, int) and isinstance(b, int) and a != b for a, b in zip(val, intended)):
                                        diff = [z3.BoolVal(True)]
                                    if diff:
                                        r, m = ctx.check(c2 + [z3.Or(*diff)])
                                        if r == "sat":
                                            witness = (m, "evaluated text differs from the printed operation")
                                        elif r == "unknown":
                                            raise Inconclusive("solver answered unknown on a value path")
                                        else:
                                            res["n_unsat"] += 1
                                    else:
                                        res["n_unsat"] += 1
                            if witness:
                                break
                        if witness:
                            break
                    res["n_queries"] += ctx.n_queries
                    res["solver_s"] += ctx.time_s
                    if not witness:
                        if which == "syntax":
                            res["n_unsat"] += 1
                        continue
                    m, why = witness
                    raw = "".join(chr(c) if isinstance(c, int) else chr(m.eval(c, model_completion=True).as_long()) for c in s_terms)
                    (rt, rm), = module_for(X, T, binary, ctxname, [raw])
                    nj = node_import([rm])[0]
                    want = strip_continuations(rt)
                    bad = (not nj["ok"]) if which == "syntax" else (nj["ok"] and nj["value"] != want)
                    res["samples"].append({"string_literal_source": raw, "context": ctxname, "template": T["kind"], "module": rm, "node": nj, "printed_operation": want, "solver_says": why})
                    if not bad:
                        res["infra"].append("model %r (%s, %s): not reproduced by node on the real module text %r -> %r" % (raw, ctxname, why, rm, nj))
                        done = True
                        break
                    rp = os.path.join(REPLAYS, prop, "query_text_module_%s_%s" % (which, ctxname))
                    os.makedirs(rp, exist_ok=True)
                    with open(os.path.join(rp, "input.json"), "w") as f:
                        f.write(json.dumps({"format": "pretty", "sel": CONTEXTS[ctxname](raw)}) + "\n")
                    with open(os.path.join(rp, "module.mjs"), "w") as f:
                        f.write(rm)
                    with open(os.path.join(rp, "REPLAY.md"), "w") as f:
                        f.write("Property %s: string literal \"%s\" (%s)\nreal module text (module.mjs):\n%s\nnode: %r\nprinted operation: %r\n"
                                "Run: bash %s/replay.sh (prints the real operation text; `node module.mjs` shows the syntax error / "
                                "`node -e \"import('%s/module.mjs').then(m=>console.log(JSON.stringify(m.default)))\"` the evaluated text)\n" % (prop, raw, ctxname, rm, nj, want, rp, rp))
                    with open(os.path.join(rp, "replay.sh"), "w") as f:
                        f.write("#!/bin/bash\n%s < %s/input.json\nnode %s/module.mjs; exit 1\n" % (binary, rp, rp))
                    if which == "syntax":
                        msg = "the query_text module for the argument \"%s\" is not a well-formed module (%s): %r -> %s" % (raw, why, rm, nj.get("error"))
                    else:
                        msg = "the query_text module for the argument \"%s\" evaluates to %r but the compiler printed %r" % (raw, nj["value"], want)
                    res["violations"].append((msg, rp))
                    done = True
                    break
                if done:
                    break
            if res["violations"]:
                break
        if res["violations"]:
            break
    log("  query_text module (%s): %d shapes, %d lexer paths, %d solver queries (%.1fs), %d violations" % (which, res["n_shapes"], res["n_paths"], res["n_queries"], res["solver_s"], len(res["violations"])))
    return res
