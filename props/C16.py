"""C16 (one clause) A variable is accepted for an argument exactly when its type is compatible with the argument's type.

C16 demands that a value or variable of an incompatible type is rejected and that programs without errors compile
without diagnostics. For variables the decision is `variable_type_satisfies_argument_type` (validate_argument_types.rs)
over Isograph's representation of GraphQL types (Scalar / Union{nullable, variants} / Plural with an embedded location
per list item type). Engine S: the nine arms of that function, `union_contains` and `union_variant_matches_scalar_arg`
are re-read from source (each arm body must be one of a small set of known expression forms, otherwise exit 2) and
composed into a recursive z3 term over enumerated pairs of type shapes (variable type, argument type) whose names and
list-item locations are symbolic (the two types come from different files, so their locations differ). The
specification is the GraphQL rule AreTypesCompatible(variableType, locationType). z3 decides per pair of shapes whether
the two can disagree; models are replayed through the real function on types built by the real
TypeAnnotationDeclaration::from_graphql_type_annotation (native/types_driver, hooks on)."""
import os, re, json, time, subprocess, shutil, itertools
import z3
from common import (tier, log, write_evidence, known_findings, finish, repo_fingerprint, REPLAYS, REPO, BUILD, run, env_offline)
from smt import Query, Inconclusive, read_repo, extract_fn, NATIVE

PROP = "C16"
F_SRC = "crates/isograph_schema/src/validate_argument_types.rs"
F_TY = "crates/isograph_lang_types/src/declarations/isograph_type_annotation_declaration.rs"
F_LOC = "crates/common_lang_types/src/location.rs"


def need(m, what):
    if not m:
        raise Inconclusive("encoding not regenerable: " + what)
    return m


def norm(t):
    t = re.sub(r"//[^\n]*", "", t)
    t = re.sub(r"\s+", " ", t).strip()
    t = re.sub(r" ?([(){}\[\],.;|&!=*<>]) ?", r"\1", t)       # layout-insensitive
    return t.replace(",)", ")").replace(",}", "}")


# known expression forms of the arm bodies -> semantic tag
FORMS = {
    norm("target_scalar == supplied_scalar"): "scalar-eq",
    norm("!supplied_union.nullable && supplied_union.variants.iter().all(|union_variant| { union_variant_matches_scalar_arg(union_variant, target_scalar.dereference()) })"): "union-all-match-scalar",
    norm("false"): "false",
    norm("true"): "true",
    norm("{ union_contains(target_union, &UnionVariant::Scalar(*supplied_scalar)) }"): "contains-scalar",
    norm("{ (target_union.nullable || !supplied_union.nullable) && supplied_union.variants.iter().all(|union_variant_var| { union_contains(target_union, union_variant_var) }) }"): "union-subset-nullable-ok",
    norm("{ supplied_union.variants.iter().all(|union_variant_var| { union_contains(target_union, union_variant_var) }) }"): "union-subset",
    norm("{ union_contains(target_union, &UnionVariant::Plural(*supplied_plural.clone())) }"): "contains-plural",
    norm("{ !supplied_union.nullable && supplied_union.variants.iter().all(|variant_var| match variant_var { UnionVariant::Scalar(_) => false, UnionVariant::Plural(plural_var) => { variable_type_satisfies_argument_type(plural_var.item.reference(), target_plural.item.reference()) } }) }"): "union-all-plural-rec",
    norm("{ variable_type_satisfies_argument_type(supplied_plural.item.reference(), target_plural.item.reference()) }"): "plural-rec",
    norm("{ variable_type_satisfies_argument_type(target_plural.item.reference(), supplied_plural.item.reference()) }"): "plural-rec-swapped",
    norm("{ !supplied_union.nullable && supplied_union.variants.iter().all(|variant_var| match variant_var { UnionVariant::Scalar(_) => false, UnionVariant::Plural(plural_var) => { variable_type_satisfies_argument_type(target_plural.item.reference(), plural_var.item.reference()) } }) }"): "union-all-plural-rec-swapped",
}
CONTAINS_FORMS = {
    norm("{ union.variants.contains(potential_member) }"): "by-equality",
    norm("{ match potential_member { UnionVariant::Scalar(_) => union.variants.contains(potential_member), UnionVariant::Plural(supplied) => union.variants.iter().any(|variant| match variant { UnionVariant::Scalar(_) => false, UnionVariant::Plural(target) => variable_type_satisfies_argument_type(supplied.item.reference(), target.item.reference()) }) } }"): "plural-by-compatibility",
    norm("{ match potential_member { UnionVariant::Scalar(_) => union.variants.contains(potential_member), UnionVariant::Plural(supplied) => union.variants.iter().any(|variant| match variant { UnionVariant::Scalar(_) => false, UnionVariant::Plural(target) => variable_type_satisfies_argument_type(target.item.reference(), supplied.item.reference()) }) } }"): "plural-by-compatibility-swapped",
}
MATCH_SCALAR_FORM = norm("{ match union_variant_var { UnionVariant::Scalar(union_var_entity_name_wrapper) => { union_var_entity_name_wrapper.dereference() == scalar_arg } UnionVariant::Plural(_) => false } }")


def fn_body(src, name):
    t = extract_fn(src, name)
    return t[t.index("{", t.index(")")):] if "->" not in t else t[t.index("{", t.index("->")):]


def extract():
    src = read_repo(F_SRC)
    X = {"arms": {}}
    body = norm(fn_body(src, "variable_type_satisfies_argument_type"))
    KIND = {"Scalar": "S", "Union": "U", "Plural": "P"}
    m = need(re.fullmatch(r"\{match target_type\{(.*)\}\}", body), "variable_type_satisfies_argument_type is not a match on target_type")
    outer = m.group(1)
    # split the outer match into its three arms by the target patterns
    heads = list(re.finditer(r"TypeAnnotationDeclaration::(Scalar|Union|Plural)\((target_\w+)\)=>", outer))
    # outer heads are those at brace depth 0
    def depth_at(text, pos):
        d = 0
        for ch in text[:pos]:
            d += ch == "{"
            d -= ch == "}"
        return d
    outer_heads = [h for h in heads if depth_at(outer, h.start()) == 0]
    if [h.group(1) for h in outer_heads] != ["Scalar", "Union", "Plural"]:
        raise Inconclusive("encoding not regenerable: outer arms are %r" % [h.group(1) for h in outer_heads])
    for k, h in enumerate(outer_heads):
        end = outer_heads[k + 1].start() if k + 1 < len(outer_heads) else len(outer)
        arm = outer[h.end():end].rstrip(",")
        if arm.startswith("{") and arm.endswith("}"):
            arm = arm[1:-1]
        m2 = need(re.fullmatch(r"match supplied_type\{(.*)\}", arm), "target %s arm is not a match on supplied_type" % h.group(1))
        inner = m2.group(1)
        ih = [x for x in re.finditer(r"TypeAnnotationDeclaration::(Scalar|Union|Plural)\((_?supplied_\w+)\)=>", inner) if depth_at(inner, x.start()) == 0]
        if sorted(x.group(1) for x in ih) != ["Plural", "Scalar", "Union"]:
            raise Inconclusive("encoding not regenerable: inner arms of target %s are %r" % (h.group(1), [x.group(1) for x in ih]))
        for kk, x in enumerate(ih):
            e2 = ih[kk + 1].start() if kk + 1 < len(ih) else len(inner)
            b = inner[x.end():e2].rstrip(",")
            tag = FORMS.get(b) or FORMS.get("{" + b + "}") or (FORMS.get(b[1:-1]) if b.startswith("{") and b.endswith("}") else None)
            if tag is None:
                raise Inconclusive("encoding not regenerable: arm (target %s, supplied %s) has an unrecognised body: %s" % (h.group(1), x.group(1), b[:200]))
            X["arms"][KIND[h.group(1)] + KIND[x.group(1)]] = tag
    cb = norm(fn_body(src, "union_contains"))
    X["contains"] = need(CONTAINS_FORMS.get(cb), "union_contains has an unrecognised body: %s" % cb[:200])
    if norm(fn_body(src, "union_variant_matches_scalar_arg")) != MATCH_SCALAR_FORM:
        raise Inconclusive("encoding not regenerable: union_variant_matches_scalar_arg changed")
    # equality of union variants: derived, including the location of a list item type
    ty = read_repo(F_TY)
    need(re.search(r"#\[derive\(([^)]*)\)\]\s*pub enum UnionVariant \{\s*Scalar\(EntityNameWrapper\),\s*Plural\(WithEmbeddedLocation<TypeAnnotationDeclaration>\),\s*\}", ty), "UnionVariant definition")
    loc = read_repo(F_LOC)
    m = need(re.search(r"#\[derive\(([^)]*)\)\]\s*pub struct WithGenericLocation<TItem, TLocation> \{\s*pub item: TItem,\s*pub location: TLocation,\s*\}", loc), "WithGenericLocation definition")
    X["location_in_equality"] = "Ord" in m.group(1) and "PartialEq" in m.group(1)
    if not X["location_in_equality"]:
        raise Inconclusive("encoding not regenerable: WithGenericLocation no longer derives its comparison (hand-written comparisons are not translated)")
    need(re.search(r"GraphQLTypeAnnotation::Named\(named_type_annotation\) => \{\s*TypeAnnotationDeclaration::Union\(UnionTypeAnnotationDeclaration::new_nullable\(\s*UnionVariant::Scalar\(named_type_annotation\.0\.into\(\)\),?\s*\)\)", ty), "representation of a nullable named type")
    need(re.search(r"GraphQLNonNullTypeAnnotation::Named\(named_type_annotation\) => \{\s*TypeAnnotationDeclaration::Scalar\(named_type_annotation\.0\.into\(\)\)", ty), "representation of a non-null named type")
    need(re.search(r"TypeAnnotationDeclaration::Union\(UnionTypeAnnotationDeclaration::new_nullable\(\s*UnionVariant::Plural\(inner\),?\s*\)\)", ty), "representation of a nullable list type")
    need(re.search(r"TypeAnnotationDeclaration::Plural\(inner\.boxed\(\)\)", ty), "representation of a non-null list type")
    return X


# ---- GraphQL type shapes: ("N",) named | ("NN", t) | ("L", t)
def gen_types(d):
    base = [("N",), ("NN", ("N",))]
    if d == 0:
        return base
    out = list(base)
    for x in gen_types(d - 1):
        out.append(("L", x))
        out.append(("NN", ("L", x)))
    return out


class Inst:
    """instantiates a shape with symbolic (or concrete) names and list locations"""
    def __init__(self, tag, concrete=None):
        self.tag, self.names, self.locs, self.concrete, self.k = tag, [], [], concrete, 0

    def name(self):
        i = len(self.names)
        v = z3.Int("%s_n%d" % (self.tag, i)) if self.concrete is None else z3.IntVal(self.concrete["names"][i])
        self.names.append(v)
        return v

    def loc(self):
        i = len(self.locs)
        v = z3.Int("%s_l%d" % (self.tag, i)) if self.concrete is None else z3.IntVal(self.concrete["locs"][i])
        self.locs.append(v)
        return v


def rep(t, inst):
    """Isograph representation of a GraphQL type shape (from_graphql_type_annotation)"""
    if t[0] == "N":
        return ("U", True, [("VS", inst.name())])
    if t[0] == "L":
        l = inst.loc()
        return ("U", True, [("VP", rep(t[1], inst), l)])
    inner = t[1]
    if inner[0] == "N":
        return ("S", inst.name())
    l = inst.loc()
    return ("P", rep(inner[1], inst), l)


def gql(t, inst):
    """the same shape as a GraphQL type term for the specification, sharing name variables by position"""
    if t[0] == "N":
        return ("N", inst.name())
    if t[0] == "L":
        inst.loc()
        return ("L", gql(t[1], inst))
    return ("NN", gql(t[1], inst))


def eq_type(a, b):
    if a[0] != b[0]:
        return z3.BoolVal(False)
    if a[0] == "S":
        return a[1] == b[1]
    if a[0] == "P":
        return z3.And(eq_type(a[1], b[1]), a[2] == b[2])
    if a[1] != b[1] or len(a[2]) != len(b[2]):
        return z3.BoolVal(False)
    return z3.And(*[eq_variant(x, y) for x, y in zip(a[2], b[2])])      # singleton variant sets in this representation


def eq_variant(x, y):
    if x[0] != y[0]:
        return z3.BoolVal(False)
    if x[0] == "VS":
        return x[1] == y[1]
    return z3.And(eq_type(x[1], y[1]), x[2] == y[2])


def model_fn(X, sup, tgt):
    arm = X["arms"][tgt[0] + sup[0]]

    def contains(union, member):
        if X["contains"] == "by-equality" or member[0] == "VS":
            return z3.Or(*[eq_variant(v, member) for v in union[2]]) if union[2] else z3.BoolVal(False)
        if X["contains"] == "plural-by-compatibility-swapped":
            return z3.Or(*[model_fn(X, v[1], member[1]) if v[0] == "VP" else z3.BoolVal(False) for v in union[2]])
        return z3.Or(*[model_fn(X, member[1], v[1]) if v[0] == "VP" else z3.BoolVal(False) for v in union[2]])

    def need_kinds(t_kind, s_kind):
        if tgt[0] != t_kind or sup[0] != s_kind:
            raise Inconclusive("encoding not regenerable: body form %r sits in arm (target %s, supplied %s) where its variables are not bound" % (arm, tgt[0], sup[0]))

    if arm == "false":
        return z3.BoolVal(False)
    if arm == "true":
        return z3.BoolVal(True)
    if arm == "scalar-eq":
        need_kinds("S", "S")
        return tgt[1] == sup[1]
    if arm == "union-all-match-scalar":
        need_kinds("S", "U")
        return z3.And(z3.BoolVal(not sup[1]), *[(v[1] == tgt[1]) if v[0] == "VS" else z3.BoolVal(False) for v in sup[2]])
    if arm == "contains-scalar":
        need_kinds("U", "S")
        return contains(tgt, ("VS", sup[1]))
    if arm in ("union-subset-nullable-ok", "union-subset"):
        need_kinds("U", "U")
        sub = z3.And(*[contains(tgt, v) for v in sup[2]])
        return z3.And(z3.BoolVal(tgt[1] or not sup[1]), sub) if arm == "union-subset-nullable-ok" else sub
    if arm == "contains-plural":
        need_kinds("U", "P")
        return contains(tgt, ("VP", sup[1], sup[2]))
    if arm == "union-all-plural-rec":
        need_kinds("P", "U")
        return z3.And(z3.BoolVal(not sup[1]), *[model_fn(X, v[1], tgt[1]) if v[0] == "VP" else z3.BoolVal(False) for v in sup[2]])
    if arm == "plural-rec":
        need_kinds("P", "P")
        return model_fn(X, sup[1], tgt[1])
    if arm == "plural-rec-swapped":
        need_kinds("P", "P")
        return model_fn(X, tgt[1], sup[1])
    if arm == "union-all-plural-rec-swapped":
        need_kinds("P", "U")
        return z3.And(z3.BoolVal(not sup[1]), *[model_fn(X, tgt[1], v[1]) if v[0] == "VP" else z3.BoolVal(False) for v in sup[2]])
    raise Inconclusive("internal: unknown arm tag " + arm)


def spec(v, t):
    """GraphQL (June 2018) AreTypesCompatible(variableType, locationType)"""
    if t[0] == "NN":
        if v[0] != "NN":
            return z3.BoolVal(False)
        return spec(v[1], t[1])
    if v[0] == "NN":
        return spec(v[1], t)
    if t[0] == "L":
        if v[0] != "L":
            return z3.BoolVal(False)
        return spec(v[1], t[1])
    if v[0] == "L":
        return z3.BoolVal(False)
    return v[1] == t[1]


def to_json(t, names, locs, names_it=None, locs_it=None):
    names_it = names_it if names_it is not None else iter(names)
    locs_it = locs_it if locs_it is not None else iter(locs)

    def go(x):
        if x[0] == "N":
            return {"n": "AB"[next(names_it) % 2] if True else None}
        if x[0] == "L":
            l = next(locs_it)
            return {"l": go(x[1]), "loc": l}
        inner = x[1]
        if inner[0] == "L":
            l = next(locs_it)
            return {"nn": {"l": go(inner[1]), "loc": l}}
        return {"nn": go(inner)}
    return go(t)


def show(j):
    if "n" in j:
        return j["n"]
    if "nn" in j:
        return show(j["nn"]) + "!"
    return "[" + show(j["l"]) + "]"


def count_leaves(t):
    if t[0] == "N":
        return 1, 0
    n, l = count_leaves(t[1])
    return (n, l + 1) if t[0] == "L" else (n, l)


def build_driver():
    d = os.path.join(NATIVE, "types_driver")
    shutil.copyfile(os.path.join(REPO, "Cargo.lock"), os.path.join(d, "Cargo.lock"))
    rc, out, wall, to = run(["cargo", "build", "--release"], cwd=d, timeout=2400, env=env_offline({"CARGO_TARGET_DIR": os.path.join(BUILD, "native_hooks"), "RUSTFLAGS": "--cfg kani"}))
    if rc != 0:
        raise Inconclusive("native driver types_driver does not build against /repo (hooks on): " + out[-800:])
    return os.path.join(BUILD, "native_hooks", "release", "types_driver")


def run_driver(binary, items):
    p = subprocess.run([binary], input="\n".join(json.dumps(i) for i in items) + "\n", capture_output=True, text=True, timeout=120)
    if p.returncode != 0:
        raise Inconclusive("types_driver failed: " + p.stderr[-300:])
    return [l.strip() == "true" for l in p.stdout.splitlines()]


def spec_concrete(vj, tj):
    def strip(j):
        return j
    if "nn" in tj:
        return "nn" in vj and spec_concrete(vj["nn"], tj["nn"])
    if "nn" in vj:
        return spec_concrete(vj["nn"], tj)
    if "l" in tj:
        return "l" in vj and spec_concrete(vj["l"], tj["l"])
    if "l" in vj:
        return False
    return vj["n"] == tj["n"]


def main():
    t0 = time.time()
    T_ = tier()
    B = {"list_depth": 1} if T_ == "quick" else {"list_depth": 2}
    violations, known_lines, infra, queries, samples = [], [], [], [], []
    n_valid = n_q = n_unsat = 0
    solver_s = 0.0
    kf = known_findings(PROP)
    known = {k: t for kind, k, t in kf if kind == "known" and k}
    X = None
    os.makedirs(os.path.join(REPLAYS, PROP), exist_ok=True)

    def replay(item, what, tag):
        rp = os.path.join(REPLAYS, PROP, tag)
        os.makedirs(rp, exist_ok=True)
        with open(os.path.join(rp, "input.json"), "w") as f:
            f.write(json.dumps(item) + "\n")
        with open(os.path.join(rp, "REPLAY.md"), "w") as f:
            f.write("Property C16: %s\nRun: bash %s/replay.sh  (prints what the real variable_type_satisfies_argument_type answers)\n" % (what, rp))
        with open(os.path.join(rp, "replay.sh"), "w") as f:
            f.write("#!/bin/bash\n%s < %s/input.json\nexit 1\n" % (binary, rp))
        return rp

    try:
        binary = build_driver()
        types = gen_types(B["list_depth"])
        # ---- stage 0 (not solver-decided; a guard that does not depend on the extractor): every pair of depth-1 types over two names
        guard_items = []
        for vt in gen_types(1):
            for tt in gen_types(1):
                nv, lv = count_leaves(vt)
                nt, lt = count_leaves(tt)
                for names in itertools.product((0, 1), repeat=nv + nt):
                    vj = to_json(vt, names[:nv], list(range(10, 10 + lv)))
                    tj = to_json(tt, names[nv:], list(range(20, 20 + lt)))
                    guard_items.append({"var": vj, "arg": tj})
        real = run_driver(binary, guard_items)
        for it, r in zip(guard_items, real):
            want = spec_concrete(it["var"], it["arg"])
            if r != want:
                rp = replay(it, "native guard: variable of type %s for an argument of type %s" % (show(it["var"]), show(it["arg"])), "probe_guard")
                violations.append(("native guard: a variable of type %s is %s for an argument of type %s; GraphQL's AreTypesCompatible says %s" % (show(it["var"]), "accepted" if r else "rejected", show(it["arg"]), "compatible" if want else "incompatible"), rp))
                samples.append({"var": show(it["var"]), "arg": show(it["arg"]), "real": r, "spec": want, "stage": "native guard"})
                break
        samples.append({"native_guard_pairs": len(guard_items)})

        X = extract()
        # ---- translator validation: the composed term, pinned to concrete names and locations, equals the real function
        for it, r in list(zip(guard_items, real))[::7]:
            def shape_of(j):
                if "n" in j:
                    return ("N",)
                if "nn" in j:
                    return ("NN", shape_of(j["nn"]))
                return ("L", shape_of(j["l"]))
            def names_locs(j, ns, ls):
                if "n" in j:
                    ns.append("AB".index(j["n"]))
                elif "nn" in j:
                    names_locs(j["nn"], ns, ls)
                else:
                    ls.append(j["loc"]); names_locs(j["l"], ns, ls)
                return ns, ls
            vs, ts = shape_of(it["var"]), shape_of(it["arg"])
            vn, vl = names_locs(it["var"], [], [])
            tn, tl = names_locs(it["arg"], [], [])
            term = model_fn(X, rep(vs, Inst("v", {"names": vn, "locs": vl})), rep(ts, Inst("t", {"names": tn, "locs": tl})))
            got = z3.is_true(z3.simplify(term))
            if got != r:
                raise Inconclusive("translator validation failed: %s for %s: encoding %s, real %s" % (show(it["var"]), show(it["arg"]), got, r))
            n_valid += 1

        for vt in types:
            for tt in types:
                q = Query("C16_pair", solver_timeout_s=60, simple=True)
                iv, it_ = Inst("v"), Inst("t")
                vrep = rep(vt, iv)
                trep = rep(tt, it_)
                iv2, it2 = Inst("v"), Inst("t")
                vg, tg = gql(vt, iv2), gql(tt, it2)
                for nme in iv.names + it_.names:
                    q.add(nme >= 0, nme <= 1)
                for l in iv.locs:
                    q.add(l >= 0, l <= 50)
                for l in it_.locs:
                    q.add(l >= 0, l <= 50)
                # the variable's type is written in the iso literal, the argument's type in the schema: every location differs.
                # (encoded by giving the two sides different files in the replay and disjoint location ids here)
                for a in iv.locs:
                    for b in it_.locs:
                        q.add(a != b)
                    q.add(a < 25)
                for b in it_.locs:
                    q.add(b >= 25)
                q.add(model_fn(X, vrep, trep) != spec(vg, tg))
                r = q.check(cross_check=False)
                n_q += 1
                solver_s += q.time_s
                if r == "unsat":
                    n_unsat += 1
                    continue
                if r != "sat":
                    raise Inconclusive("solver answered %s" % r)
                m = q.model()
                ev = lambda t: m.eval(t, model_completion=True).as_long()
                item = {"var": to_json(vt, [ev(x) for x in iv.names], [ev(x) for x in iv.locs]), "arg": to_json(tt, [ev(x) for x in it_.names], [ev(x) for x in it_.locs])}
                real_r = run_driver(binary, [item])[0]
                want = spec_concrete(item["var"], item["arg"])
                samples.append({"var": show(item["var"]), "arg": show(item["arg"]), "real": real_r, "spec": want})
                if real_r == want:
                    infra.append("model %s / %s does not reproduce natively (real %s)" % (show(item["var"]), show(item["arg"]), real_r))
                    continue
                rp = replay(item, "a variable of type %s for an argument of type %s" % (show(item["var"]), show(item["arg"])), "pair_%d" % n_q)
                violations.append(("a variable of type %s is %s for an argument of type %s; GraphQL's AreTypesCompatible says %s" % (show(item["var"]), "accepted" if real_r else "rejected", show(item["arg"]), "compatible" if want else "incompatible"), rp))
                if len(violations) >= 3:
                    break
            if len(violations) >= 3:
                break
        queries.append({"query": "C16 model != specification per pair of type shapes", "shape_queries": n_q, "unsat_shapes": n_unsat, "solver_s": round(solver_s, 2)})
        log("  %d shape-pair queries, %d unsat, %d violations (%.1fs solver)" % (n_q, n_unsat, len(violations), solver_s))
    except Inconclusive as e:
        infra.append(str(e))

    cov = {
        "explanation": "One clause of C16 (a variable of an incompatible type is rejected, of a compatible type accepted): the arms of variable_type_satisfies_argument_type, "
                       "union_contains and union_variant_matches_scalar_arg are re-read from source and composed over pairs of GraphQL type shapes with symbolic names and list-item "
                       "locations; z3 decides per pair whether the result can differ from GraphQL's AreTypesCompatible; models are replayed through the real function.",
        "functions_encoded": ["isograph_schema::validate_argument_types::variable_type_satisfies_argument_type", "union_contains", "union_variant_matches_scalar_arg",
                              "TypeAnnotationDeclaration::from_graphql_type_annotation (representation)", "derived comparison of UnionVariant / WithGenericLocation"],
        "extracted": X, "source_fingerprint": repo_fingerprint([F_SRC, F_TY, F_LOC]),
        "bounds": dict(B, names="two names", types="named, non-null, list and non-null list types with lists nested to list_depth"),
        "queries": queries, "queries_discharged": n_q, "solver_time_s": round(solver_s, 2),
        "translator_validation_inputs_agreeing": n_valid,
        "evaluations": n_q + n_valid, "distinct_nontrivial": n_unsat + len(samples),
        "rule": "evaluations = per-pair SMT queries + concrete pairs on which the composed term equals the real function; distinct_nontrivial = pairs decided unsat + models replayed natively",
        "samples": samples[:6] or [{"note": "none"}], "exhaustive": False, "known_findings_reported": known_lines,
    }
    assumptions = [
        "PARTIAL: only the compatibility of a variable's declared type with an argument's type (the Variable arm of value_satisfies_type); literals, objects, lists, "
        "undefined fields / arguments, missing required arguments, unused or undeclared variables and response-name conflicts need the database and whole programs and are outside the claim",
        "specification = AreTypesCompatible of the GraphQL June 2018 specification; the allowance for nullable variables with default values (IsVariableUsageAllowed) is outside the claim",
        "the variable's type and the argument's type come from different files, so the locations of their list item types differ (asserted in the queries, realised by different files in the replay)",
        "native replay uses a driver built with the verification hooks on (RUSTFLAGS=--cfg kani), which only adds the wrapper",
    ]
    write_evidence(PROP, "other", cov, assumptions, time.time() - t0, len(violations))
    finish(PROP, violations, known_lines, infra)


if __name__ == "__main__":
    main()
