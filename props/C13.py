"""C13 (one clause) A description can never end the doc comment it is written into.

Generated parameter / output types carry schema and client-field descriptions as `/** ... */` comments in
front of a member (`write_optional_description`). If the description text can terminate the comment, the rest
of the text lands in the type literal and the artifact no longer parses as TypeScript (C13).
Engine S: the push sequence of `write_optional_description` is re-read from source and translated into a z3
sequence of 8-bit characters (one exhaustive case per layout of the replaced occurrences); the solver decides, for every description of bounded length over an alphabet containing `*`, `/`,
newline, space and letters, whether the first comment terminator of the emitted text can come before its last
three characters. Models are replayed with the real function (native/desc_driver, hooks on) and judged by an
independent lexer: node parses the emitted text in member position of an object literal."""
import os, re, json, time, subprocess, shutil
import z3
from common import (tier, log, write_evidence, known_findings, finish, repo_fingerprint, REPLAYS, REPO, BUILD, run, env_offline)
from smt import Query, Inconclusive, read_repo, extract_fn, rust_str_literal, NATIVE
import jslit
import qtmod

PROP = "C13"
F_SRC = "crates/artifact_content/src/generate_updatable_and_parameter_type.rs"


def extract():
    """returns a list of pieces: ("indent",) | ("lit", text) | ("desc", transform) where transform is None or
    ("replace", from, to) chains"""
    src = read_repo(F_SRC)
    fn = re.sub(r"//[^\n]*", "", extract_fn(src, "write_optional_description"))
    # collapse whitespace outside string / char literals only (the indentation unit is a string of two spaces)
    out, i, q = [], 0, None
    while i < len(fn):
        c = fn[i]
        if q:
            out.append(c)
            if c == "\\":
                out.append(fn[i + 1]); i += 2; continue
            if c == q:
                q = None
        elif c in "\"'":
            q = c; out.append(c)
        elif c.isspace():
            if out and out[-1] != " ":
                out.append(" ")
        else:
            out.append(c)
        i += 1
    body = "".join(out).strip()
    m = re.search(r"if let Some\(description\) = description \{ (.*) \} \}$", body)
    if not m:
        raise Inconclusive("encoding not regenerable: write_optional_description has an unrecognised frame")
    stmts = [s.strip() for s in m.group(1).split(";") if s.strip()]
    REPL = r"""(?:\.replace\(\s*(?:'(?:[^'\\]|\\.)+'|"(?:[^"\\]|\\.)*")\s*,\s*"(?:[^"\\]|\\.)*"\s*\))"""

    def chain(text):
        reps = []
        for mm in re.finditer(r"""\.replace\(\s*(?:'((?:[^'\\]|\\.)+)'|"((?:[^"\\]|\\.)*)")\s*,\s*"((?:[^"\\]|\\.)*)"\s*\)""", text):
            reps.append((rust_str_literal(mm.group(1) if mm.group(1) is not None else mm.group(2)), rust_str_literal(mm.group(3))))
        return reps

    pieces = []
    bound = {}          # let-bound names -> replace chain applied to the description so far
    for st in stmts:
        if re.fullmatch(r'query_type_declaration\.push_str\(&"  "\.repeat\(indentation_level as usize\)\.to_string\(\)\)', st):
            pieces.append(("indent",))
            continue
        mm = re.fullmatch(r'query_type_declaration\.push_str\("((?:[^"\\]|\\.)*)"\)', st)
        if mm:
            pieces.append(("lit", rust_str_literal(mm.group(1))))
            continue
        mm = re.fullmatch(r"query_type_declaration\.push\('((?:[^'\\]|\\.)*)'\)", st)
        if mm:
            pieces.append(("lit", rust_str_literal(mm.group(1))))
            continue
        mm = re.fullmatch(r'let (\w+)(?:: [\w&<> ]+)? = &?(description\.lookup\(\)|\w+)(%s*)(?:\.to_string\(\))?' % REPL, st)
        if mm and (mm.group(2) == "description.lookup()" or mm.group(2) in bound):
            base = [] if mm.group(2) == "description.lookup()" else bound[mm.group(2)]
            bound[mm.group(1)] = base + chain(mm.group(3))
            continue
        mm = re.fullmatch(r'query_type_declaration\.push_str\(&?(description\.lookup\(\)|\w+)(%s*)\)' % REPL, st)
        if mm and (mm.group(1) == "description.lookup()" or mm.group(1) in bound):
            base = [] if mm.group(1) == "description.lookup()" else bound[mm.group(1)]
            pieces.append(("desc", base + chain(mm.group(2))))
            continue
        raise Inconclusive("encoding not regenerable: statement %r of write_optional_description is outside the supported subset" % st)
    if [p[0] for p in pieces].count("desc") != 1:
        raise Inconclusive("encoding not regenerable: the description must be written exactly once")
    for p_ in pieces:
        if p_[0] == "desc" and any(len(a) == 0 for a, b in p_[1]):
            raise Inconclusive("encoding not regenerable: replace of an empty pattern")
    return pieces


def emitted_cases(ctx, pieces, d, indent_str):
    """d: list of 16-bit z3 terms or ints (the description). Returns [(path condition, emitted text as a list of ints / terms)]:
    the replace chain is executed symbolically (lib/jslit.sym_replace: leftmost non-overlapping matches, every data-dependent
    branch forked and pruned by a solver query), so the cases are exhaustive and mutually exclusive."""
    reps = [p[1] for p in pieces if p[0] == "desc"][0]
    paths = [([], list(d))]
    for a, b in reps:
        paths = jslit.sym_replace(ctx, paths, [ord(c) for c in a], [ord(c) for c in b])
    out = []
    for cons, body in paths:
        text = []
        for p in pieces:
            if p[0] == "indent":
                text += [ord(ch) for ch in indent_str]
            elif p[0] == "lit":
                text += [ord(ch) for ch in p[1]]
            else:
                text += body
        out.append((cons, text))
    return out


def concrete_emitted(pieces, desc, indent_str):
    """the same translation evaluated on a concrete description (translator validation)"""
    out = ""
    for p in pieces:
        if p[0] == "indent":
            out += indent_str
        elif p[0] == "lit":
            out += p[1]
        else:
            t = desc
            for a, b in p[1]:
                t = t.replace(a, b)
            out += t
    return out


def build_driver():
    d = os.path.join(NATIVE, "desc_driver")
    shutil.copyfile(os.path.join(REPO, "Cargo.lock"), os.path.join(d, "Cargo.lock"))
    rc, out, wall, to = run(["cargo", "build", "--release"], cwd=d, timeout=2400,
                            env=env_offline({"CARGO_TARGET_DIR": os.path.join(BUILD, "native_hooks"), "RUSTFLAGS": "--cfg kani"}))
    if rc != 0:
        raise Inconclusive("native driver desc_driver does not build against /repo (hooks on): " + out[-800:])
    return os.path.join(BUILD, "native_hooks", "release", "desc_driver")


def run_driver(binary, descs, indent):
    p = subprocess.run([binary, str(indent)], input="\n".join(d.encode().hex() for d in descs) + "\n", capture_output=True, text=True, timeout=60)
    if p.returncode != 0:
        raise Inconclusive("desc_driver failed: " + p.stderr[-300:])
    return [bytes.fromhex(l).decode() for l in p.stdout.splitlines()]


NODE_ORACLE = r"""
const lines = require('fs').readFileSync(0, 'utf8').split('\n').filter(x => x.trim());
for (const l of lines) {
  const text = Buffer.from(l, 'hex').toString('utf8');
  // the comment sits in front of a member of an object type; an object literal is the JavaScript twin of that position
  let ok = true;
  try {
    const v = new Function('return ({\n' + text + '  a: 1,\n});')();
    ok = Object.keys(v).length === 1 && v.a === 1;
  } catch (e) { ok = false; }
  console.log(ok ? 'ok' : 'broken');
}
"""


def node_judges(texts):
    p = subprocess.run(["node", "-e", NODE_ORACLE], input="\n".join(t.encode().hex() for t in texts) + "\n", capture_output=True, text=True, timeout=60)
    if p.returncode != 0:
        raise Inconclusive("node oracle failed: " + p.stderr[-300:])
    return [l.strip() == "ok" for l in p.stdout.splitlines()]


def smt_str(v):
    """decode a z3 string value (ASCII alphabet here; z3 prints \\u{..} escapes for control characters)"""
    t = v.as_string()
    return re.sub(r"\\u\{([0-9a-fA-F]+)\}", lambda m: chr(int(m.group(1), 16)), t)


def main():
    t0 = time.time()
    T_ = tier()
    B = {"len": 5} if T_ == "quick" else {"len": 8}
    violations, known_lines, infra, queries, samples = [], [], [], [], []
    n_valid = 0
    fork_queries = 0
    kf = known_findings(PROP)
    known = {k: t for kind, k, t in kf if kind == "known" and k}
    pieces = None
    QB = None
    os.makedirs(os.path.join(REPLAYS, PROP), exist_ok=True)
    try:
        binary = build_driver()
        # ---- stage 0 (not solver-decided; a guard that does not depend on the extractor): every description of up to 3 characters over
        # an alphabet of the characters that matter to comment lexing, through the real function, judged by the lexical rule
        import itertools
        GA = "*/\r\n a\\"
        gdescs = [""] + ["".join(t) for k in (1, 2, 3) for t in itertools.product(GA, repeat=k)] + ["a */ b", "**//", "/**/", "*\r\n/", "* /", "*\\/"]
        for ind in (0, 2):
            outs = run_driver(binary, gdescs, ind)
            bad = [(d_, o) for d_, o in zip(gdescs, outs) if not o.endswith("*/\n") or "*/" in o[ind * 2 + 2:len(o) - 3]]
            if bad:
                d_, o = bad[0]
                if node_judges([o])[0]:
                    continue
                rp = os.path.join(REPLAYS, PROP, "desc_guard")
                os.makedirs(rp, exist_ok=True)
                with open(os.path.join(rp, "input.hex"), "w") as f:
                    f.write(d_.encode().hex() + "\n")
                with open(os.path.join(rp, "REPLAY.md"), "w") as f:
                    f.write("Property C13 (native guard): the description %r ends the doc comment early; emitted text:\n%s\nRun: bash %s/replay.sh (prints the emitted text)\n" % (d_, o, rp))
                with open(os.path.join(rp, "replay.sh"), "w") as f:
                    f.write("#!/bin/bash\n%s %d < %s/input.hex | xxd -r -p\nexit 1\n" % (binary, ind, rp))
                violations.append(("native guard: description %r ends the doc comment early: emitted %r does not parse in member position" % (d_, o), rp))
                samples.append({"description": d_, "emitted": o, "stage": "native guard"})
                break
        samples.append({"native_guard_descriptions": len(gdescs) * 2})
        pieces = extract()
        # ---- translator validation: the encoding's emitted text equals the real function's on probes
        probes = ["a description", "x", "two\nlines", "a */ b */", "**//*/", "slash / and star * apart", "ends with star*", "/starts with slash", "tab\tand \"quotes\" and `ticks`", "cr\r\nlf", "*\r/ and *\\/"]
        for ind in (0, 1, 3):
            real = run_driver(binary, probes, ind)
            for pr, rt in zip(probes, real):
                # (1) the python translation of the extracted pieces equals the real function
                if concrete_emitted(pieces, pr, "  " * ind) != rt:
                    raise Inconclusive("translator validation failed: translation differs from the real function on %r (indent %d): real %r" % (pr, ind, rt))
                # (2) the symbolic executor, pinned to the probe, has exactly one feasible path and it yields the real text
                ctxv = jslit.Ctx([])
                cases = emitted_cases(ctxv, pieces, [ord(c) for c in pr], "  " * ind)
                if len(cases) != 1:
                    raise Inconclusive("translator validation failed: %d feasible paths for a concrete description" % len(cases))
                got = "".join(chr(t) for t in cases[0][1])
                if got != rt:
                    raise Inconclusive("translator validation failed: symbolic replace yields %r, real %r" % (got, rt))
                n_valid += 1
        samples.append({"translator_validation": [probes[3], real[3]]})

        reps_ = [p_[1] for p_ in pieces if p_[0] == "desc"][0]
        # the alphabet contains every character that matters to comment lexing plus every character the transform mentions
        ALPHA = sorted(set(ord(c) for c in "*/ \na\\") | set(ord(c) for a_, b_ in reps_ for c in a_ + b_))
        for ind in (0, 1):
            for L in range(0, B["len"] + 1):
                q = Query("C13_breakout_len%d_indent%d" % (L, ind), solver_timeout_s=120)
                d = [z3.BitVec("d%d" % i, jslit.W) for i in range(L)]
                cls = [z3.Or(*[c == v for v in ALPHA]) for c in d]
                q.add(*cls)
                ctxq = jslit.Ctx(cls)
                opener_end = ind * 2 + 2
                cases = []
                for cs, text in emitted_cases(ctxq, pieces, d, "  " * ind):
                    # lexical fact: the comment opened at the start ends at the FIRST "*/" at or after offset opener_end; the emitted
                    # text is one comment plus a newline iff that terminator is the final one, i.e. iff no "*/" starts before len-3
                    n_ = len(text)
                    early = []
                    for j in range(opener_end, n_ - 3):
                        e1, e2 = jslit.eqc(text[j], ord("*")), jslit.eqc(text[j + 1], ord("/"))
                        if e1 is False or e2 is False:
                            continue
                        early.append(z3.And(*[e for e in (e1, e2) if e is not True]) if not (e1 is True and e2 is True) else z3.BoolVal(True))
                    cases.append(list(cs) + [z3.Or(*early) if early else z3.BoolVal(False)])
                fork_queries += ctxq.n_queries
                r = q.check_cases(cases, per_case_timeout_s=60, nproc=8)
                queries.append(q.summary())
                if r == "unsat":
                    continue
                m = q.model()
                desc = "".join(chr(m.eval(c, model_completion=True).as_long()) for c in d)
                text = run_driver(binary, [desc], ind)[0]
                fine = node_judges([text])[0]
                samples.append({"description": desc, "emitted": text, "node_parses_member_position": fine})
                if fine:
                    infra.append("model %r: the emitted text %r has an early terminator but node still parses it in member position" % (desc, text))
                    continue
                rp = os.path.join(REPLAYS, PROP, "breakout_len%d_indent%d" % (L, ind))
                os.makedirs(rp, exist_ok=True)
                with open(os.path.join(rp, "input.hex"), "w") as f:
                    f.write(desc.encode().hex() + "\n")
                with open(os.path.join(rp, "REPLAY.md"), "w") as f:
                    f.write("Property C13: the description %r ends the doc comment early; emitted text:\n%s\nRun: bash %s/replay.sh (prints the emitted text)\n" % (desc, text, rp))
                with open(os.path.join(rp, "replay.sh"), "w") as f:
                    f.write("#!/bin/bash\n%s %d < %s/input.hex | xxd -r -p\nexit 1\n" % (binary, ind, rp))
                if "description-ends-comment" in known:
                    if not known_lines:
                        known_lines.append("key=description-ends-comment %s (witness %r -> %r, replay %s)" % (known["description-ends-comment"], desc, text, rp))
                else:
                    violations.append(("description %r ends the doc comment early: emitted %r does not parse in member position" % (desc, text), rp))
                    break
            if violations:
                break
        n_unsat = len([q for q in queries if q["result"] == "unsat"])
        log("  %d queries, %d unsat, %d violations" % (len(queries), n_unsat, len(violations)))
        # ---- clause B: the query_text module is one well-formed string literal
        QB = qtmod.run_clause("syntax", T_, PROP)
        violations += QB["violations"]
        infra += QB["infra"]
    except Inconclusive as e:
        infra.append(str(e))

    n_unsat = len([q for q in queries if q["result"] == "unsat"])
    cov = {
        "explanation": "Two clauses of C13. (A) a description cannot terminate the /** */ comment it is written into: the push sequence and replace chain of "
                       "write_optional_description are re-read from source and executed symbolically over 16-bit characters; per description length the solver decides whether the "
                       "first comment terminator of the emitted text can precede the final one; models are replayed with the real function and judged by "
                       "node's parser with the text in member position of an object literal. (B) the query_text module is one well-formed string literal for every "
                       "string literal argument the iso lexer accepts (see clause_b_query_text_module); models are replayed on the real module text and judged by node's import().",
        "functions_encoded": ["artifact_content::generate_updatable_and_parameter_type::write_optional_description",
                              "artifact_content: the query_text module template (entrypoint_artifact.rs, imperatively_loaded_fields.rs)",
                              "graphql_network_protocol::query_text string arm + Pretty separators", "NonConstantValueInner::to_alias_str_chunk (string arm)",
                              "isograph_lang_parser StringToken classes"],
        "extracted": pieces,
        "clause_b_query_text_module": None if QB is None else {
            "question": "for every string literal argument (units: plain character of the lexer's class / two-character escape / \\uXXXX, all characters symbolic) the module "
                        "export default '<operation text>'; is one well-formed single-quoted literal ending at the final quote (strict-mode ECMAScript lexer executed symbolically)",
            "extracted": QB["extracted"], "bounds": QB["bounds"], "shapes": QB["n_shapes"], "lexer_paths": QB["n_paths"], "solver_queries": QB["n_queries"],
            "solver_time_s": round(QB["solver_s"], 2), "shapes_without_malformed_path": QB["n_unsat"], "translator_validation_inputs_agreeing": QB["n_valid"], "samples": QB["samples"][:3]},
        "source_fingerprint": repo_fingerprint([F_SRC] + qtmod.FILES),
        "bounds": dict(B, alphabet="* / space newline a backslash", indentation="levels 0 and 1"),
        "queries": queries[:12], "queries_discharged": len(queries) + fork_queries + (QB["n_queries"] if QB else 0),
        "solver_time_s": round(sum(q["solver_s"] for q in queries) + (QB["solver_s"] if QB else 0), 2),
        "translator_validation_inputs_agreeing": n_valid + (QB["n_valid"] if QB else 0),
        "evaluations": len(queries) + n_valid + ((QB["n_shapes"] + QB["n_valid"]) if QB else 0), "distinct_nontrivial": n_unsat + len(samples) + (QB["n_unsat"] if QB else 0),
        "rule": "evaluations = SMT queries (one per description length and indentation) + probe descriptions on which the encoding equals the real function; "
                "distinct_nontrivial = queries answered unsat + distinct models replayed natively; clause B adds one evaluation per string shape and per probe, "
                "and one distinct_nontrivial per shape all of whose lexer paths are well-formed",
        "samples": samples[:6] or [{"note": "none"}],
        "exhaustive": False,
        "known_findings_reported": known_lines,
    }
    assumptions = [
        "PARTIAL: only (A) doc comments written by write_optional_description and (B) the query_text module around string literal arguments (two contexts: scalar argument, object entry; "
        "string literals of at most `units` units; variable default values and names are not strings of the iso lexer's class and are outside the claim); every other artifact template, JSON artifacts and import closure need a whole compile and a TypeScript parser and are outside the claim",
        "lexical rule used: a block comment ends at the first '*/' after its opener (ECMAScript / TypeScript); the replay oracle is node's parser with the emitted text in member position of an object literal (the JavaScript twin of the object type literal the compiler emits)",
        "descriptions up to len characters over an alphabet containing every character that matters to comment lexing",
        "native replay uses a driver built with the verification hooks on (RUSTFLAGS=--cfg kani), which only adds the wrapper",
    ]
    write_evidence(PROP, "other", cov, assumptions, time.time() - t0, len(violations))
    finish(PROP, violations, known_lines, infra)


if __name__ == "__main__":
    main()
