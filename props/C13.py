"""C13 (one clause) A description can never end the doc comment it is written into.

Generated parameter / output types carry schema and client-field descriptions as `/** ... */` comments in
front of a member (`write_optional_description`). If the description text can terminate the comment, the rest
of the text lands in the type literal and the artifact no longer parses as TypeScript (C13).
Engine S: the push sequence of `write_optional_description` is re-read from source and translated into a z3
sequence of 8-bit characters (one exhaustive case per layout of the replaced occurrences); the solver decides, for every description of bounded length over an alphabet containing `*`, `/`,
newline, space and letters, whether the first comment terminator of the emitted text can come before its last
three characters. Models are replayed with the real function (native/desc_driver, hooks on) and judged by an
independent lexer: node parses the emitted text in member position of an object literal."""
import os, re, json, time, subprocess, shutil
import z3
from common import (tier, log, write_evidence, known_findings, finish, repo_fingerprint, REPLAYS, REPO, BUILD, run, env_offline)
from smt import Query, Inconclusive, read_repo, extract_fn, rust_str_literal, NATIVE

PROP = "C13"
F_SRC = "crates/artifact_content/src/generate_updatable_and_parameter_type.rs"


def extract():
    """returns a list of pieces: ("indent",) | ("lit", text) | ("desc", transform) where transform is None or
    ("replace", from, to) chains"""
    src = read_repo(F_SRC)
    fn = re.sub(r"//[^\n]*", "", extract_fn(src, "write_optional_description"))
    # collapse whitespace outside string / char literals only (the indentation unit is a string of two spaces)
    out, i, q = [], 0, None
    while i < len(fn):
        c = fn[i]
        if q:
            out.append(c)
            if c == "\\":
                out.append(fn[i + 1]); i += 2; continue
            if c == q:
                q = None
        elif c in "\"'":
            q = c; out.append(c)
        elif c.isspace():
            if out and out[-1] != " ":
                out.append(" ")
        else:
            out.append(c)
        i += 1
    body = "".join(out).strip()
    m = re.search(r"if let Some\(description\) = description \{ (.*) \} \}$", body)
    if not m:
        raise Inconclusive("encoding not regenerable: write_optional_description has an unrecognised frame")
    stmts = [s.strip() for s in m.group(1).split(";") if s.strip()]
    pieces = []
    for st in stmts:
        if re.fullmatch(r'query_type_declaration\.push_str\(&"  "\.repeat\(indentation_level as usize\)\.to_string\(\)\)', st):
            pieces.append(("indent",))
            continue
        mm = re.fullmatch(r'query_type_declaration\.push_str\("((?:[^"\\]|\\.)*)"\)', st)
        if mm:
            pieces.append(("lit", rust_str_literal(mm.group(1))))
            continue
        mm = re.fullmatch(r"query_type_declaration\.push\('((?:[^'\\]|\\.)*)'\)", st)
        if mm:
            pieces.append(("lit", rust_str_literal(mm.group(1))))
            continue
        mm = re.fullmatch(r'query_type_declaration\.push_str\(&?description\.lookup\(\)((?:\.replace\("(?:[^"\\]|\\.)*", "(?:[^"\\]|\\.)*"\))*)\)', st)
        if mm:
            reps = [(rust_str_literal(a), rust_str_literal(b)) for a, b in re.findall(r'\.replace\("((?:[^"\\]|\\.)*)", "((?:[^"\\]|\\.)*)"\)', mm.group(1))]
            pieces.append(("desc", reps))
            continue
        raise Inconclusive("encoding not regenerable: statement %r of write_optional_description is outside the supported subset" % st)
    if [p[0] for p in pieces].count("desc") != 1:
        raise Inconclusive("encoding not regenerable: the description must be written exactly once")
    return pieces


def layouts(L, n):
    """all sets of non-overlapping match starts for a pattern of length n in a text of length L (leftmost-first)"""
    out = []
    def rec(i, chosen):
        if i > L - n:
            out.append(list(chosen))
            return
        rec(i + 1, chosen)
        rec(i + n, chosen + [i])
    if n <= 0 or n > L:
        return [[]]
    rec(0, [])
    return out


def emitted_cases(pieces, d, indent_str):
    """d: list of 8-bit z3 terms (the description, concrete length). Yields (constraints, emitted text as a python list of
    8-bit terms) for every replace layout; the layouts are exhaustive and mutually exclusive."""
    B8 = lambda ch: z3.BitVecVal(ord(ch), 8)
    reps = [p[1] for p in pieces if p[0] == "desc"][0]
    if len(reps) > 1:
        raise Inconclusive("encoding not regenerable: more than one .replace() on the description")
    L = len(d)
    if reps:
        a, b = reps[0]
        n = len(a)
        if n == 0:
            raise Inconclusive("encoding not regenerable: replace of an empty pattern")
        hit = [z3.And(*[d[i + k] == B8(a[k]) for k in range(n)]) if i + n <= L else z3.BoolVal(False) for i in range(L)]
        cases = layouts(L, n)
    else:
        a, b, n, hit, cases = "", "", 0, [], [[]]
    for P in cases:
        cs, body = [], []
        covered = set()
        for i in P:
            covered.update(range(i + 1, i + n))
        i = 0
        for i in range(L):
            if i in P:
                cs.append(hit[i])
                body += [B8(ch) for ch in b]
            elif i in covered:
                continue
            else:
                if reps:
                    cs.append(z3.Not(hit[i]))
                body.append(d[i])
        text = []
        for p in pieces:
            if p[0] == "indent":
                text += [B8(ch) for ch in indent_str]
            elif p[0] == "lit":
                text += [B8(ch) for ch in p[1]]
            else:
                text += body
        yield cs, text


def concrete_emitted(pieces, desc, indent_str):
    """the same translation evaluated on a concrete description (translator validation)"""
    out = ""
    for p in pieces:
        if p[0] == "indent":
            out += indent_str
        elif p[0] == "lit":
            out += p[1]
        else:
            t = desc
            for a, b in p[1]:
                t = t.replace(a, b)
            out += t
    return out


def build_driver():
    d = os.path.join(NATIVE, "desc_driver")
    shutil.copyfile(os.path.join(REPO, "Cargo.lock"), os.path.join(d, "Cargo.lock"))
    rc, out, wall, to = run(["cargo", "build", "--release"], cwd=d, timeout=2400,
                            env=env_offline({"CARGO_TARGET_DIR": os.path.join(BUILD, "native_hooks"), "RUSTFLAGS": "--cfg kani"}))
    if rc != 0:
        raise Inconclusive("native driver desc_driver does not build against /repo (hooks on): " + out[-800:])
    return os.path.join(BUILD, "native_hooks", "release", "desc_driver")


def run_driver(binary, descs, indent):
    p = subprocess.run([binary, str(indent)], input="\n".join(d.encode().hex() for d in descs) + "\n", capture_output=True, text=True, timeout=60)
    if p.returncode != 0:
        raise Inconclusive("desc_driver failed: " + p.stderr[-300:])
    return [bytes.fromhex(l).decode() for l in p.stdout.splitlines()]


NODE_ORACLE = r"""
const lines = require('fs').readFileSync(0, 'utf8').split('\n').filter(x => x.trim());
for (const l of lines) {
  const text = Buffer.from(l, 'hex').toString('utf8');
  // the comment sits in front of a member of an object type; an object literal is the JavaScript twin of that position
  let ok = true;
  try {
    const v = new Function('return ({\n' + text + '  a: 1,\n});')();
    ok = Object.keys(v).length === 1 && v.a === 1;
  } catch (e) { ok = false; }
  console.log(ok ? 'ok' : 'broken');
}
"""


def node_judges(texts):
    p = subprocess.run(["node", "-e", NODE_ORACLE], input="\n".join(t.encode().hex() for t in texts) + "\n", capture_output=True, text=True, timeout=60)
    if p.returncode != 0:
        raise Inconclusive("node oracle failed: " + p.stderr[-300:])
    return [l.strip() == "ok" for l in p.stdout.splitlines()]


def smt_str(v):
    """decode a z3 string value (ASCII alphabet here; z3 prints \\u{..} escapes for control characters)"""
    t = v.as_string()
    return re.sub(r"\\u\{([0-9a-fA-F]+)\}", lambda m: chr(int(m.group(1), 16)), t)


def main():
    t0 = time.time()
    T_ = tier()
    B = {"len": 5} if T_ == "quick" else {"len": 8}
    violations, known_lines, infra, queries, samples = [], [], [], [], []
    n_valid = 0
    kf = known_findings(PROP)
    known = {k: t for kind, k, t in kf if kind == "known" and k}
    pieces = None
    os.makedirs(os.path.join(REPLAYS, PROP), exist_ok=True)
    try:
        binary = build_driver()
        pieces = extract()
        # ---- translator validation: the encoding's emitted text equals the real function's on probes
        probes = ["a description", "x", "two\nlines", "a */ b */", "**//*/", "slash / and star * apart", "ends with star*", "/starts with slash", "tab\tand \"quotes\" and `ticks`"]
        for ind in (0, 1, 3):
            real = run_driver(binary, probes, ind)
            for pr, rt in zip(probes, real):
                # (1) the python translation of the extracted pieces equals the real function
                if concrete_emitted(pieces, pr, "  " * ind) != rt:
                    raise Inconclusive("translator validation failed: translation differs from the real function on %r (indent %d): real %r" % (pr, ind, rt))
                # (2) the symbolic case split, pinned to the probe, has exactly one feasible layout and it yields the real text
                if len(pr) > 9:
                    n_valid += 1
                    continue        # the number of layouts grows like Fibonacci(len); long probes validate the translation (1) only
                feas = 0
                for cs, text in emitted_cases(pieces, [z3.BitVecVal(ord(c), 8) for c in pr], "  " * ind):
                    sv = z3.SimpleSolver()
                    sv.add(*cs)
                    if str(sv.check()) == "sat":
                        feas += 1
                        got = "".join(chr(z3.simplify(t).as_long()) for t in text)
                        if got != rt:
                            raise Inconclusive("translator validation failed: layout encoding yields %r, real %r" % (got, rt))
                if feas != 1:
                    raise Inconclusive("translator validation failed: %d feasible layouts for a concrete description" % feas)
                n_valid += 1
        samples.append({"translator_validation": [probes[3], real[3]]})

        ALPHA = [ord(c) for c in "*/ \na\\"]
        for ind in (0, 1):
            for L in range(0, B["len"] + 1):
                q = Query("C13_breakout_len%d_indent%d" % (L, ind), solver_timeout_s=120)
                d = [z3.BitVec("d%d" % i, 8) for i in range(L)]
                for c in d:
                    q.add(z3.Or(*[c == v for v in ALPHA]))
                opener_end = ind * 2 + 2
                cases = []
                for cs, text in emitted_cases(pieces, d, "  " * ind):
                    # lexical fact: the comment opened at the start ends at the FIRST "*/" at or after offset opener_end; the emitted
                    # text is one comment plus a newline iff that terminator is the final one, i.e. iff no "*/" starts before len-3
                    n_ = len(text)
                    early = [z3.And(text[j] == ord("*"), text[j + 1] == ord("/")) for j in range(opener_end, n_ - 3)]
                    cases.append(cs + [z3.Or(*early) if early else z3.BoolVal(False)])
                r = q.check_cases(cases, per_case_timeout_s=60, nproc=8)
                queries.append(q.summary())
                if r == "unsat":
                    continue
                m = q.model()
                desc = "".join(chr(m.eval(c, model_completion=True).as_long()) for c in d)
                text = run_driver(binary, [desc], ind)[0]
                fine = node_judges([text])[0]
                samples.append({"description": desc, "emitted": text, "node_parses_member_position": fine})
                if fine:
                    infra.append("model %r: the emitted text %r has an early terminator but node still parses it in member position" % (desc, text))
                    continue
                rp = os.path.join(REPLAYS, PROP, "breakout_len%d_indent%d" % (L, ind))
                os.makedirs(rp, exist_ok=True)
                with open(os.path.join(rp, "input.hex"), "w") as f:
                    f.write(desc.encode().hex() + "\n")
                with open(os.path.join(rp, "REPLAY.md"), "w") as f:
                    f.write("Property C13: the description %r ends the doc comment early; emitted text:\n%s\nRun: bash %s/replay.sh (prints the emitted text)\n" % (desc, text, rp))
                with open(os.path.join(rp, "replay.sh"), "w") as f:
                    f.write("#!/bin/bash\n%s %d < %s/input.hex | xxd -r -p\nexit 1\n" % (binary, ind, rp))
                if "description-ends-comment" in known:
                    if not known_lines:
                        known_lines.append("key=description-ends-comment %s (witness %r -> %r, replay %s)" % (known["description-ends-comment"], desc, text, rp))
                else:
                    violations.append(("description %r ends the doc comment early: emitted %r does not parse in member position" % (desc, text), rp))
                    break
            if violations:
                break
        n_unsat = len([q for q in queries if q["result"] == "unsat"])
        log("  %d queries, %d unsat, %d violations" % (len(queries), n_unsat, len(violations)))
    except Inconclusive as e:
        infra.append(str(e))

    n_unsat = len([q for q in queries if q["result"] == "unsat"])
    cov = {
        "explanation": "One clause of C13: a description cannot terminate the /** */ comment it is written into. The push sequence of "
                       "write_optional_description is re-read from source into a z3 string term; per description length the solver decides whether the "
                       "first comment terminator of the emitted text can precede the final one; models are replayed with the real function and judged by "
                       "node's parser with the text in member position of an object literal.",
        "functions_encoded": ["artifact_content::generate_updatable_and_parameter_type::write_optional_description"],
        "extracted": pieces,
        "source_fingerprint": repo_fingerprint([F_SRC]),
        "bounds": dict(B, alphabet="* / space newline a backslash", indentation="levels 0 and 1"),
        "queries": queries[:12], "queries_discharged": len(queries),
        "solver_time_s": round(sum(q["solver_s"] for q in queries), 2),
        "translator_validation_inputs_agreeing": n_valid,
        "evaluations": len(queries) + n_valid, "distinct_nontrivial": n_unsat + len(samples),
        "rule": "evaluations = SMT queries (one per description length and indentation) + probe descriptions on which the encoding equals the real function; "
                "distinct_nontrivial = queries answered unsat + distinct models replayed natively",
        "samples": samples[:6] or [{"note": "none"}],
        "exhaustive": False,
        "known_findings_reported": known_lines,
    }
    assumptions = [
        "PARTIAL: only doc comments written by write_optional_description; every other artifact template, JSON artifacts and import closure need a whole compile and a TypeScript parser and are outside the claim",
        "lexical rule used: a block comment ends at the first '*/' after its opener (ECMAScript / TypeScript); the replay oracle is node's parser with the emitted text in member position of an object literal (the JavaScript twin of the object type literal the compiler emits)",
        "descriptions up to len characters over an alphabet containing every character that matters to comment lexing",
        "native replay uses a driver built with the verification hooks on (RUSTFLAGS=--cfg kani), which only adds the wrapper",
    ]
    write_evidence(PROP, "other", cov, assumptions, time.time() - t0, len(violations))
    finish(PROP, violations, known_lines, infra)


if __name__ == "__main__":
    main()
