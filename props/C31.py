"""C31 (one clause) Carets sit under exactly the span's characters, one caret per character.

text_with_carats renders, under the source line that contains the span, a line of spaces and carets. Engine S: the
quantities that decide that line (start_of_line accumulation, line_len, start_of_carats, end_of_carats, the guard, and the
iteration domains of the three loops that push ' ' / '^' / ' ') are re-read from source; the document is modelled as up to
two preceding lines of symbolic byte length and a target line of n characters with symbolic UTF-8 widths (1..4 bytes); the
span is any non-empty range of characters of the target line. z3 decides whether the number of leading spaces, carets and
trailing spaces can differ from (characters before, characters in, characters after the span). Models are turned into a
real text and replayed through the real function (native/carats_driver)."""
import os, re, json, time, subprocess
import z3
from common import (tier, log, write_evidence, known_findings, finish, repo_fingerprint, REPLAYS)
from smt import Query, Inconclusive, build_native, read_repo, extract_fn

PROP = "C31"
F_SRC = "crates/common_lang_types/src/text_with_carats.rs"
WIDTH_CHAR = {1: "a", 2: "\u00e9", 3: "\u4e2d", 4: "\U0001F600"}


def need(m, what):
    if not m:
        raise Inconclusive("encoding not regenerable: " + what)
    return m


def extract():
    src = re.sub(r"//[^\n]*", "", read_repo(F_SRC))
    fn = re.sub(r"\s+", " ", extract_fn(src, "text_with_carats_and_line_count_buffer_and_line_numbers"))
    X = {}
    need(re.search(r"for \(line_index, line_content\) in file_text\.split\('\\n'\)\.enumerate\(\) \{ let start_of_line = cur_index; cur_index \+= line_content\.len\(\) \+ 1; let end_of_line = cur_index;", fn),
         "line loop (split on '\\n', start_of_line / cur_index accumulation in bytes + 1)")
    need(re.search(r"let outer_span_start = outer_span\.map\(\|x\| x\.start\)\.unwrap_or\(0\); let actual_span = Span::new\( ?outer_span_start \+ inner_span\.start, outer_span_start \+ inner_span\.end,? ?\);", fn), "actual_span")
    m_ll = need(re.search(r"let line_len = line_content\.(len\(\)|chars\(\)\.count\(\));", fn), "line_len")
    X["line_len"] = "bytes" if m_ll.group(1) == "len()" else "chars"
    need(re.search(r"let start_of_carats = \(actual_span\.start as usize\)\.saturating_sub\(start_of_line\);", fn), "start_of_carats")
    need(re.search(r"let end_of_carats = std::cmp::min\( ?\(actual_span\.end as usize\)\.saturating_sub\(start_of_line\), line_len,? ?\);", fn), "end_of_carats")
    need(re.search(r"let prefix = &line_content\[0\.\.start_of_carats\]; let highlighted = &line_content\[start_of_carats\.\.end_of_carats\]; let suffix = &line_content\[end_of_carats\.\.\];", fn), "prefix / highlighted / suffix slices")
    need(re.search(r"if start_of_carats != line_len && end_of_carats != 0 \{", fn), "guard of the caret line")
    mi = need(re.search(r"let mut carats = String::(?:new\(\)|with_capacity\([^;]*\));", fn), "caret string")
    i = mi.end()
    j = fn.index("output_lines.push(carats);", i)
    body = fn[i:j].strip()
    BYTE = {"0..start_of_carats": ("bytes", "0", "S"), "start_of_carats..end_of_carats": ("bytes", "S", "E"), "end_of_carats..line_len": ("bytes", "E", "L")}
    CHARS = {"prefix.chars()": ("chars", "0", "S"), "highlighted.chars()": ("chars", "S", "E"), "suffix.chars()": ("chars", "E", "L"),
             "line_content[..start_of_carats].chars()": ("chars", "0", "S"), "line_content[0..start_of_carats].chars()": ("chars", "0", "S"),
             "line_content[start_of_carats..end_of_carats].chars()": ("chars", "S", "E"), "line_content[end_of_carats..].chars()": ("chars", "E", "L"),
             "0..prefix.chars().count()": ("chars", "0", "S"), "0..highlighted.chars().count()": ("chars", "S", "E"), "0..suffix.chars().count()": ("chars", "E", "L")}
    # counts usable in " ".repeat(n)
    REPEAT = {"start_of_carats": ("bytes", "0", "S"), "prefix.len()": ("bytes", "0", "S"),
              "end_of_carats - start_of_carats": ("bytes", "S", "E"), "highlighted.len()": ("bytes", "S", "E"),
              "line_len - end_of_carats": ("bytes", "E", "L"), "suffix.len()": ("bytes", "E", "L"),
              "prefix.chars().count()": ("chars", "0", "S"), "highlighted.chars().count()": ("chars", "S", "E"), "suffix.chars().count()": ("chars", "E", "L")}
    CARET_BODY = r'carats\.push_str\(&format!\( ?"\{\}", if colorize_carats \{ "\^"\.bright_red\(\) \} else \{ "\^"\.normal\(\) \} ?\)\);'
    doms = []
    rest = body
    while rest:
        m = re.match(r"for _ in ([^{]+?) \{ (carats\.push\(' '\);|carats\.push\('\^'\);|%s) \} ?" % CARET_BODY, rest)
        if m:
            dom, b_ = m.group(1).strip(), m.group(2)
            ch = " " if b_ == "carats.push(' ');" else "^"
            if dom in BYTE:
                doms.append((ch,) + BYTE[dom])
            elif dom in CHARS:
                doms.append((ch,) + CHARS[dom])
            else:
                raise Inconclusive("encoding not regenerable: loop domain %r is outside the supported subset" % dom)
            rest = rest[m.end():]
            continue
        m = re.match(r'carats\.push_str\(&"( |\^)"\.repeat\(([^;]+?)\)\); ?', rest)
        if m:
            cnt = m.group(2).strip()
            if cnt not in REPEAT:
                raise Inconclusive("encoding not regenerable: repeat count %r is outside the supported subset" % cnt)
            doms.append((m.group(1),) + REPEAT[cnt])
            rest = rest[m.end():]
            continue
        raise Inconclusive("encoding not regenerable: statement building the caret line: %r" % rest[:120])
    if len(doms) != 3:
        raise Inconclusive("encoding not regenerable: the caret line is built from %d pieces, expected 3" % len(doms))
    if [d[0] for d in doms] != [" ", "^", " "]:
        raise Inconclusive("encoding not regenerable: the caret line is not spaces, carets, spaces")
    X["loops"] = [list(d) for d in doms]
    return X


def count_dom(unit, lo, hi, pos, n):
    """number of loop iterations: byte range hi - lo, or the number of characters whose first byte lies in [lo, hi)"""
    if unit == "bytes":
        return hi - lo
    return z3.Sum([z3.If(z3.And(pos[i] >= lo, pos[i] < hi), 1, 0) for i in range(n)]) if n else z3.IntVal(0)


def concrete_caret_line(X, widths, a, b):
    """the caret line the extracted statements produce: a string, None when the guard suppresses it, 'PANIC' when a slice is cut inside a character"""
    pos = [sum(widths[:i]) for i in range(len(widths) + 1)]
    Lb = pos[-1]
    Lx = Lb if X.get("line_len", "bytes") == "bytes" else len(widths)
    S_, E_ = pos[a], min(pos[b], Lx)
    if E_ not in pos or S_ > E_:
        return "PANIC"
    if S_ == Lx or E_ == 0:
        return None
    val = {"0": 0, "S": S_, "E": E_, "L": Lx}
    out = ""
    for ch, unit, lo, hi in X["loops"]:
        lo_, hi_ = val[lo], val[hi]
        if unit == "bytes":
            k = hi_ - lo_
        else:
            hi_real = Lb if hi == "L" else hi_       # the slices run over the real line, whatever line_len is
            k = sum(1 for i in range(len(widths)) if lo_ <= pos[i] < hi_real)
        out += ch * max(k, 0)
    return out


def make_text(pre_lens, widths):
    return "".join("x" * l + "\n" for l in pre_lens) + "".join(WIDTH_CHAR[w] for w in widths)


def run_driver(binary, items):
    p = subprocess.run([binary], input="\n".join(json.dumps(i) for i in items) + "\n", capture_output=True, text=True, timeout=120)
    if p.returncode != 0:
        raise Inconclusive("carats_driver failed: " + p.stderr[-300:])
    return [json.loads(l) for l in p.stdout.splitlines()]


def real_caret_line(binary, pre_lens, widths, a, b):
    text = make_text(pre_lens, widths)
    pos = [sum(widths[:i]) for i in range(len(widths) + 1)]
    base = sum(l + 1 for l in pre_lens)
    r = run_driver(binary, [{"text": text, "start": base + pos[a], "end": base + pos[b]}])[0]
    if r.get("panic"):
        return text, "PANIC", r
    lines = r["out"].split("\n")
    src_line = "".join(WIDTH_CHAR[w] for w in widths)
    idx = len(pre_lens)              # at most two preceding lines: all of them are printed as context (LINE_COUNT_BUFFER = 2)
    if idx >= len(lines) or lines[idx] != src_line or idx + 1 >= len(lines):
        return text, None, r
    return text, lines[idx + 1], r


# ---------------------------------------------------------------- clause B: the reported row is the line on which the span starts
CMP = {">": lambda x, y: x > y, ">=": lambda x, y: x >= y, "<": lambda x, y: x < y, "<=": lambda x, y: x <= y}


def extract_row():
    """the span-state machine of the line loop, re-read from source as exact statements (whitespace removed); anything else is exit 2"""
    src = re.sub(r"//[^\n]*", "", read_repo(F_SRC))
    fn = re.sub(r"\s+", "", extract_fn(src, "text_with_carats_and_line_count_buffer_and_line_numbers"))
    need(re.search(r"for\(line_index,line_content\)infile_text\.split\('\\n'\)\.enumerate\(\)\{letstart_of_line=cur_index;cur_index\+=line_content\.len\(\)\+1;letend_of_line=cur_index;letshould_print_carats=matchspan_state\{", fn),
         "line loop head (row clause)")
    need(re.search(r"letmutcur_index=0;", fn), "cur_index starts at 0")
    need(re.search(r"letmutline_row=None;letmutspan_state=SpanState::Before;", fn), "initial line_row / span_state")
    COND = r"(end_of_line|start_of_line)(>=|<=|>|<)actual_span\.(start|end)asusize"
    ROWCOL = r"line_row=Some\(\(OneIndexedRowNumber\(\((line_indexasu32\+1|\(line_index\+1\)asu32|line_indexasu32|line_indexasu32\+2)\)\.try_into\(\)\.unwrap\(\)\),OneIndexedColNumber\(\((actual_span\.start-\(start_of_lineasu32\)\+1|actual_span\.start-start_of_lineasu32\+1)\)\.try_into\(\)\.expect\(\"[^\"]*\"\),?\),?\)\);"
    m = need(re.search(r"SpanState::Before=>\{if" + COND + r"\{" + ROWCOL + r"span_state=SpanState::After;true\}elseif" + COND + r"\{" + ROWCOL + r"span_state=SpanState::Inside;true\}else\{false\}\}"
                       r"SpanState::Inside=>\{if" + COND + r"\{span_state=SpanState::After;\}true\}SpanState::After=>false,?\};", fn), "span-state machine (Before / Inside / After arms)")
    g = m.groups()
    ROWX = {"line_indexasu32+1": 1, "(line_index+1)asu32": 1, "line_indexasu32": 0, "line_indexasu32+2": 2}
    need(re.search(r"return\(\"\"\.to_string\(\),line_row\);", fn) and re.search(r"\.join\(\"\\n\"\),line_row,?\)\}$", fn), "line_row is what the function returns")
    return {"before_to_after": {"cond": list(g[0:3]), "row_plus": ROWX[g[3]]}, "before_to_inside": {"cond": list(g[5:8]), "row_plus": ROWX[g[8]]}, "inside_to_after": {"cond": list(g[10:13])}}


def expected_row(lens, s):
    sol = 0
    for i, l in enumerate(lens):
        if sol <= s < sol + l + 1:
            return i + 1
        sol += l + 1
    return None


def concrete_row(R, lens, s, e):
    """(row, underflow) the extracted state machine reports"""
    state, row, sol = 0, None, 0
    for i, l in enumerate(lens):
        eol = sol + l + 1
        val = {"end_of_line": eol, "start_of_line": sol, "start": s, "end": e}
        c = lambda k: CMP[R[k]["cond"][1]](val[R[k]["cond"][0]], val[R[k]["cond"][2]])
        if state == 0:
            if c("before_to_after"):
                if s < sol:
                    return None, True
                row, state = i + R["before_to_after"]["row_plus"], 2
            elif c("before_to_inside"):
                if s < sol:
                    return None, True
                row, state = i + R["before_to_inside"]["row_plus"], 1
        elif state == 1 and c("inside_to_after"):
            state = 2
        sol = eol
    if row is not None and row < 1:
        return None, True            # NonZeroU32 conversion of 0 is unwrapped
    return row, False


def row_items(lens_list):
    items = []
    for lens, fill in lens_list:
        text = "\n".join(fill * l for l in lens)
        w = len(fill.encode())
        blens = [l * w for l in lens]
        total = len(text.encode())
        bounds = set()
        sol = 0
        for l in blens:
            for k in range(0, l + 1, w):
                bounds.add(sol + k)
            bounds.add(sol + l + 1)
            sol += l + 1
        bounds = sorted(b for b in bounds if b <= total)
        for s_ in bounds:
            for e_ in bounds:
                if s_ < e_:
                    items.append((text, blens, s_, e_))
    return items


_ROW_GUARD = {}


def row_guard(binary, samples, violations):
    import itertools
    # ---- stage 0 (native guard, enumeration, independent of the extractor): every text of <= 3 lines of 0..2 characters, every span on character boundaries
    shapes = [(list(ls), "x") for m in (1, 2, 3) for ls in itertools.product((0, 1, 2), repeat=m)] + [(list(ls), "\u00e9") for m in (2, 3) for ls in itertools.product((0, 1), repeat=m)]
    items = row_items(shapes)
    res = run_driver(binary, [{"text": t, "start": s_, "end": e_} for t, _, s_, e_ in items])
    # the same inputs with the span given relative to an outer span that starts at the span's start / one byte earlier
    res_outer = run_driver(binary, [{"text": t, "outer": max(s_ - (k % 2), 0), "start": s_ - max(s_ - (k % 2), 0), "end": e_ - max(s_ - (k % 2), 0)} for k, (t, _, s_, e_) in enumerate(items)])
    for (t, blens, s_, e_), r, ro in zip(items, res, res_outer):
        if (r.get("panic"), r.get("row")) != (ro.get("panic"), ro.get("row")) and not violations:
            rp = os.path.join(REPLAYS, PROP, "row_guard_outer")
            os.makedirs(rp, exist_ok=True)
            with open(os.path.join(rp, "REPLAY.md"), "w") as f:
                f.write("Property C31 (native row guard, outer span): text %r, span bytes [%d,%d): row %r without an outer span, %r with the same span given relative to an outer span\n" % (t, s_, e_, r, ro))
            violations.append(("native row guard: text %r, span bytes [%d,%d): the reported row differs when the same span is given relative to an outer span (%r vs %r)" % (t, s_, e_, r.get("row"), ro.get("row")), rp))
    n_guard = 0
    for (t, blens, s_, e_), r in zip(items, res):
        want = expected_row(blens, s_)
        got = "PANIC" if r.get("panic") else r.get("row")
        n_guard += 1
        if got != want:
            rp = os.path.join(REPLAYS, PROP, "row_guard")
            os.makedirs(rp, exist_ok=True)
            with open(os.path.join(rp, "input.json"), "w") as f:
                f.write(json.dumps({"text": t, "start": s_, "end": e_}) + "\n")
            with open(os.path.join(rp, "REPLAY.md"), "w") as f:
                f.write("Property C31 (native row guard): text %r, span bytes [%d,%d): reported row %r, the span starts on line %r\nRun: bash %s/replay.sh\n" % (t, s_, e_, got, want, rp))
            with open(os.path.join(rp, "replay.sh"), "w") as f:
                f.write("#!/bin/bash\n%s < %s/input.json\nexit 1\n" % (binary, rp))
            violations.append(("native row guard: text %r, span bytes [%d,%d): reported row is %r, the span starts on line %r" % (t, s_, e_, got, want), rp))
            samples.append({"text": t, "span_bytes": [s_, e_], "real_row": got, "expected_row": want, "stage": "row guard"})
            break
    _ROW_GUARD.update(items=items, res=res, n_guard=n_guard)


def row_clause(binary, B, queries, samples, violations, infra):
    items, res, n_guard = _ROW_GUARD["items"], _ROW_GUARD["res"], _ROW_GUARD["n_guard"]
    R = extract_row()
    # ---- translator validation: the extracted state machine reproduces the row the real function reports
    n_valid = 0
    for (t, blens, s_, e_), r in list(zip(items, res))[::7]:
        row, uf = concrete_row(R, blens, s_, e_)
        got = "PANIC" if r.get("panic") else r.get("row")
        if (("PANIC" if uf else row) != got) and not (uf and got != "PANIC"):     # release-profile wrap-around is not a panic; only agreement on rows is demanded
            raise Inconclusive("row translator validation failed on %r [%d,%d): model %r, real %r" % (t, s_, e_, row, got))
        n_valid += 1
    # ---- solver: m lines of symbolic byte length, symbolic span inside the text
    for m in range(1, B["row_lines"] + 1):
        q = Query("C31_row_lines%d" % m, solver_timeout_s=120, simple=True)
        L = [z3.Int("len%d" % i) for i in range(m)]
        s, e = z3.Int("s"), z3.Int("e")
        for x in L:
            q.add(x >= 0, x <= B["row_line_len"])
        total = z3.Sum(L) + (m - 1) if m > 1 else L[0]
        q.add(s >= 0, s < e, e <= total)
        o = z3.Int("outer")                       # start of the outer span: actual_span = outer start + inner span (statement checked by extract())
        q.add(o >= 0, o <= s)
        state, row, uf, sol = z3.IntVal(0), z3.IntVal(-1), z3.BoolVal(False), z3.IntVal(0)
        exp = z3.IntVal(-1)
        for i in range(m):
            eol = sol + L[i] + 1
            val = {"end_of_line": eol, "start_of_line": sol, "start": s, "end": e}
            c = lambda k: CMP[R[k]["cond"][1]](val[R[k]["cond"][0]], val[R[k]["cond"][2]])
            c1, c2, c3 = c("before_to_after"), c("before_to_inside"), c("inside_to_after")
            t1 = z3.And(state == 0, c1)
            t2 = z3.And(state == 0, z3.Not(c1), c2)
            t3 = z3.And(state == 1, c3)
            uf = z3.Or(uf, z3.And(z3.Or(t1, t2), s < sol))
            row = z3.If(t1, i + R["before_to_after"]["row_plus"], z3.If(t2, i + R["before_to_inside"]["row_plus"], row))
            state = z3.If(t1, 2, z3.If(t2, 1, z3.If(t3, 2, state)))
            exp = z3.If(z3.And(sol <= s, s < eol), i + 1, exp)
            sol = eol
        q.add(z3.Or(uf, row != exp))
        r = q.check(cross_check=(m <= 3), cross_timeout_s=60)
        queries.append(q.summary())
        if r == "unsat":
            continue
        if r != "sat":
            raise Inconclusive("solver answered %s" % r)
        mdl = q.model()
        ev = lambda t: mdl.eval(t, model_completion=True).as_long()
        lens, s_, e_, o_ = [ev(x) for x in L], ev(s), ev(e), ev(o)
        text = "\n".join("x" * l for l in lens)
        rr = run_driver(binary, [{"text": text, "outer": o_, "start": s_ - o_, "end": e_ - o_}])[0]
        got = "PANIC" if rr.get("panic") else rr.get("row")
        want = expected_row(lens, s_)
        samples.append({"text": text, "span_bytes": [s_, e_], "real_row": got, "expected_row": want})
        if got == want:
            infra.append("row model %r [%d,%d) does not reproduce natively: row %r is right" % (text, s_, e_, got))
            break
        rp = os.path.join(REPLAYS, PROP, "row_lines%d" % m)
        os.makedirs(rp, exist_ok=True)
        with open(os.path.join(rp, "input.json"), "w") as f:
            f.write(json.dumps({"text": text, "outer": o_, "start": s_ - o_, "end": e_ - o_}) + "\n")
        with open(os.path.join(rp, "REPLAY.md"), "w") as f:
            f.write("Property C31: text %r, span bytes [%d,%d): reported row %r, the span starts on line %r\nRun: bash %s/replay.sh\n" % (text, s_, e_, got, want, rp))
        with open(os.path.join(rp, "replay.sh"), "w") as f:
            f.write("#!/bin/bash\n%s < %s/input.json\nexit 1\n" % (binary, rp))
        violations.append(("text %r, span bytes [%d,%d): reported row is %r, the span starts on line %r" % (text, s_, e_, got, want), rp))
        break
    return R, n_guard, n_valid


def main():
    t0 = time.time()
    T_ = tier()
    B = {"chars": 4, "preceding_lines": 1, "row_lines": 4, "row_line_len": 6} if T_ == "quick" else {"chars": 7, "preceding_lines": 2, "row_lines": 7, "row_line_len": 12}
    violations, known_lines, infra, queries, samples = [], [], [], [], []
    n_valid = 0
    X = None
    R, n_row_guard, n_row_valid = None, 0, 0
    os.makedirs(os.path.join(REPLAYS, PROP), exist_ok=True)
    try:
        binary = build_native("carats_driver")
        PROBES = [([], [1, 1, 1], 0, 1), ([], [1, 1, 1, 1], 1, 3), ([3], [1, 1, 1], 2, 3), ([0, 2], [1, 1], 0, 2), ([], [2, 1, 1], 1, 2), ([1], [1, 3, 1], 1, 3),
                  ([], [4, 1], 0, 1), ([2], [1, 2, 2, 1], 2, 4), ([], [1, 1, 2], 0, 1), ([1], [1, 3, 4], 0, 1), ([], [2, 4, 3, 1], 1, 2)]
        # ---- stage 0 (not solver-decided; a guard that does not depend on the extractor): the probes through the real function
        for pre, ws, a_, b_ in PROBES:
            text, real, raw = real_caret_line(binary, pre, ws, a_, b_)
            expected = " " * a_ + "^" * (b_ - a_) + " " * (len(ws) - b_)
            if real != expected:
                rp = os.path.join(REPLAYS, PROP, "probe_guard")
                os.makedirs(rp, exist_ok=True)
                pos_c = [sum(ws[:i]) for i in range(len(ws) + 1)]
                base = sum(l + 1 for l in pre)
                with open(os.path.join(rp, "input.json"), "w") as f:
                    f.write(json.dumps({"text": text, "start": base + pos_c[a_], "end": base + pos_c[b_]}) + "\n")
                with open(os.path.join(rp, "REPLAY.md"), "w") as f:
                    f.write("Property C31 (native probe guard): text %r, span = characters [%d,%d) of the last line: caret line %r, expected %r\nRun: bash %s/replay.sh\n" % (text, a_, b_, real, expected, rp))
                with open(os.path.join(rp, "replay.sh"), "w") as f:
                    f.write("#!/bin/bash\n%s < %s/input.json\nexit 1\n" % (binary, rp))
                violations.append(("native probe guard: text %r, span = characters [%d,%d) of its last line: caret line is %r, one caret per character would be %r" % (text, a_, b_, real, expected), rp))
                samples.append({"text": text, "span_chars": [a_, b_], "real_caret_line": real, "expected": expected, "stage": "probe guard"})
                break
        # ---- stage 0 for clause B (independent of both extractors): the reported row on every small text / span, with and without an outer span
        row_guard(binary, samples, violations)
        X = extract()
        # ---- translator validation: the extracted loop domains reproduce the real caret line on probes (ASCII and not)
        probes = PROBES
        _unused = [([], [1, 1, 1], 0, 1), ([], [1, 1, 1, 1], 1, 3), ([3], [1, 1, 1], 2, 3), ([0, 2], [1, 1], 0, 2), ([], [2, 1, 1], 1, 2), ([1], [1, 3, 1], 1, 3), ([], [4, 1], 0, 1), ([2], [1, 2, 2, 1], 2, 4), ([], [1, 1, 2], 0, 1), ([1], [1, 3, 4], 0, 1), ([], [2, 4, 3, 1], 1, 2)]
        for pre, ws, a, b in probes:
            text, real, raw = real_caret_line(binary, pre, ws, a, b)
            model = concrete_caret_line(X, ws, a, b)
            if real != model:
                raise Inconclusive("translator validation failed on %r span chars [%d,%d): model caret line %r, real %r (%r)" % (text, a, b, model, real, raw))
            n_valid += 1
        samples.append({"translator_validation_probes": len(probes)})

        done = False
        for m_pre in range(0, B["preceding_lines"] + 1):
            for n in range(1, B["chars"] + 1):
                q = Query("C31_carets_pre%d_chars%d" % (m_pre, n), solver_timeout_s=120, simple=True)
                w = [z3.Int("w%d" % i) for i in range(n)]
                pl = [z3.Int("pre%d" % j) for j in range(m_pre)]
                a, b = z3.Int("a"), z3.Int("b")
                for x in w:
                    q.add(x >= 1, x <= 4)
                for x in pl:
                    q.add(x >= 0, x <= 6)
                q.add(a >= 0, a < b, b <= n)
                pos = [z3.Sum(w[:i]) if i else z3.IntVal(0) for i in range(n + 1)]
                sel = lambda idx: z3.Sum([z3.If(idx == i, pos[i], 0) for i in range(n + 1)])
                S, Eb, Lb = sel(a), sel(b), pos[n]
                Lx = Lb if X.get("line_len", "bytes") == "bytes" else z3.IntVal(n)
                # start_of_line cancels: start_of_carats = (start_of_line + S).saturating_sub(start_of_line) = S; end_of_carats = min(E, line_len)
                E = z3.If(Eb < Lx, Eb, Lx)
                panics = z3.Or(z3.Not(z3.Or(*[E == pos[i] for i in range(n + 1)])), S > E)      # a slice boundary inside a character
                guard_off = z3.Or(S == Lx, E == 0)                                               # no caret line at all
                val = {"0": z3.IntVal(0), "S": S, "E": E, "L": Lx}
                counts = []
                for ch, unit, lo, hi in X["loops"]:
                    if unit == "bytes":
                        counts.append(val[hi] - val[lo])
                    else:
                        counts.append(count_dom("chars", val[lo], Lb if hi == "L" else val[hi], pos, n))
                q.add(z3.Or(panics, guard_off, counts[0] != a, counts[1] != b - a, counts[2] != n - b))
                r = q.check(cross_check=(n <= 2), cross_timeout_s=60)
                queries.append(q.summary())
                if r == "unsat":
                    continue
                if r != "sat":
                    raise Inconclusive("solver answered %s" % r)
                mdl = q.model()
                ev = lambda t: mdl.eval(t, model_completion=True).as_long()
                ws, pre, a_, b_ = [ev(x) for x in w], [ev(x) for x in pl], ev(a), ev(b)
                text, real, raw = real_caret_line(binary, pre, ws, a_, b_)
                expected = " " * a_ + "^" * (b_ - a_) + " " * (n - b_)
                samples.append({"text": text, "span_chars": [a_, b_], "real_caret_line": real, "expected": expected})
                if real == expected:
                    infra.append("model %r [%d,%d) does not reproduce natively: caret line %r is right" % (text, a_, b_, real))
                    done = True
                    break
                rp = os.path.join(REPLAYS, PROP, "carets_pre%d_chars%d" % (m_pre, n))
                os.makedirs(rp, exist_ok=True)
                pos_c = [sum(ws[:i]) for i in range(n + 1)]
                base = sum(l + 1 for l in pre)
                with open(os.path.join(rp, "input.json"), "w") as f:
                    f.write(json.dumps({"text": text, "start": base + pos_c[a_], "end": base + pos_c[b_]}) + "\n")
                with open(os.path.join(rp, "REPLAY.md"), "w") as f:
                    f.write("Property C31: text %r, span bytes [%d,%d) = characters [%d,%d) of the last line.\nreal caret line %r, expected %r\nRun: bash %s/replay.sh\n" % (text, base + pos_c[a_], base + pos_c[b_], a_, b_, real, expected, rp))
                with open(os.path.join(rp, "replay.sh"), "w") as f:
                    f.write("#!/bin/bash\n%s < %s/input.json\nexit 1\n" % (binary, rp))
                violations.append(("text %r, span = characters [%d,%d) of its last line: caret line is %r, one caret per character would be %r" % (text, a_, b_, real, expected), rp))
                done = True
                break
            if done:
                break
        # ---- clause B: the reported row
        n_row_guard = _ROW_GUARD.get("n_guard", 0)
        if not violations and not infra:
            R, n_row_guard, n_row_valid = row_clause(binary, B, queries, samples, violations, infra)
        n_unsat = len([q for q in queries if q["result"] == "unsat"])
        log("  %d queries, %d unsat, %d violations" % (len(queries), n_unsat, len(violations)))
    except Inconclusive as e:
        infra.append(str(e))

    n_unsat = len([q for q in queries if q["result"] == "unsat"])
    cov = {
        "explanation": "Clause B (the reported row is the line on which the span starts): the span-state machine of the line loop (the three comparisons that leave Before / Inside, "
                       "the row expression, the column subtraction) is re-read from source; the text is up to row_lines lines of symbolic byte length and the span any non-empty byte range "
                       "inside it; z3 decides whether the reported row can differ from the line containing the span's first byte or the column subtraction can underflow; models are replayed. "
                       "Clause A (one caret per character, under exactly the span's characters, single-line spans): the byte quantities and the iteration domains of "
                       "the three loops that build the caret line are re-read from source; the target line is a sequence of characters with symbolic UTF-8 widths; z3 decides "
                       "whether the counts of leading spaces / carets / trailing spaces can differ from the character counts before / in / after the span; models are replayed "
                       "through the real text_with_carats.",
        "functions_encoded": ["common_lang_types::text_with_carats_and_line_count_buffer_and_line_numbers (line accumulation, start/end_of_carats, guard, caret-line loops; span-state machine and line_row)"],
        "extracted": X, "extracted_row_state_machine": R, "row_guard_inputs": n_row_guard, "row_translator_validation_inputs_agreeing": n_row_valid, "source_fingerprint": repo_fingerprint([F_SRC]),
        "bounds": dict(B, widths="every mixture of 1-4 byte characters", spans="non-empty, inside one line, on character boundaries; no outer span"),
        "queries": queries[:4] + queries[-2:], "queries_discharged": len(queries), "solver_time_s": round(sum(q["solver_s"] for q in queries), 2),
        "translator_validation_inputs_agreeing": n_valid,
        "evaluations": len(queries) + n_valid + n_row_valid, "distinct_nontrivial": n_unsat + len(samples),
        "rule": "evaluations = SMT queries (one per number of preceding lines and characters) + probes on which the extracted loop domains reproduce the real caret line; "
                "distinct_nontrivial = queries answered unsat + models replayed natively",
        "samples": samples[:6] or [{"note": "none"}], "exhaustive": False, "known_findings_reported": known_lines,
    }
    assumptions = [
        "PARTIAL: the caret line of a span that lies inside one line, and the reported row of any span inside the text (no outer span); other panics, the caret lines of multi-line spans, the column's unit, the context-line window, outer spans and colour are outside the claim "
        "(CBMC does not finish symbolic execution of the real function even for 4-byte texts: DESIGN.md M7, M12)",
        "the control flow around the loops is not translated: for a single-line span the first source line that prints carets is the span's line (validated on the probes through the real function)",
        "a character is a Unicode scalar value (what the property counts); display width (East Asian wide, combining marks) is not modelled",
    ]
    write_evidence(PROP, "other", cov, assumptions, time.time() - t0, len(violations))
    finish(PROP, violations, known_lines, infra)


if __name__ == "__main__":
    main()
