"""C12 Response keys are unique per field+arguments and agree with the runtime.

Engine S: the alias templates are re-read on every run from
  crates/isograph_lang_types/src/declarations/selection_argument.rs   (to_alias_str_chunk, "{}___{}")
  crates/isograph_schema/src/create_merged_selection_set.rs           (get_aliased_mutation_field_name, "____")
  libs/isograph-react/src/core/cache.ts                                (getNetworkResponseKey, getArgumentValueChunk)
and translated into z3 string terms over a bounded value domain. Queries (sat = counterexample):
  INJ    two different (field, arguments) with the same compiler key
  LEGAL  a compiler key that is not a GraphQL Name
  AGREE  compiler key != runtime key for the same field and arguments
Each known-finding class is first witnessed (query restricted to the class must be sat and replay
natively), then excluded, and the remaining query must be unsat."""
import os, re, json, time, subprocess
import z3
from common import (tier, log, write_evidence, known_findings, finish, repo_fingerprint, REPLAYS, REPO)
from smt import Query, Inconclusive, build_native, run_native, read_repo, extract_fn, rust_str_literal, NATIVE as NATIVE_DIR

PROP = "C12"
F_RS = "crates/isograph_lang_types/src/declarations/selection_argument.rs"
F_MERGE = "crates/isograph_schema/src/create_merged_selection_set.rs"
F_TS = "libs/isograph-react/src/core/cache.ts"


# ---------------------------------------------------------------- extraction (fails closed)

def need(m, what):
    if not m:
        raise Inconclusive("encoding not regenerable: " + what)
    return m


def extract_rust():
    src = read_repo(F_RS)
    X = {}
    # SelectionFieldArgument / ArgumentKeyAndValue: "{}___{}"
    tmpls = re.findall(r'pub fn to_alias_str_chunk\(&self\) -> String \{\s*format!\(\s*"((?:[^"\\]|\\.)*)",\s*self\.(?:name\.item|key),\s*self\.value(?:\.item)?\.to_alias_str_chunk\(\)\s*,?\s*\)', src)
    if len(tmpls) != 2 or tmpls[0] != tmpls[1]:
        raise Inconclusive("encoding not regenerable: argument chunk templates not found or not equal: %r" % (tmpls,))
    X["arg_tmpl"] = rust_str_literal(tmpls[0])
    body = re.sub(r"//[^\n]*", "", src[src.index("impl<TLocation> NonConstantValueInner<TLocation> {"):])
    body = body[:body.index("pub fn variables")]
    def arm(kind, pat):
        m = re.search(r"NonConstantValueInner::%s(?:\((\w+)\))?\s*=>\s*%s" % (kind, pat), body, re.S)
        return need(m, "arm for %s not recognised" % kind)
    X["var"] = rust_str_literal(arm("Variable", r'format!\("((?:[^"\\]|\\.)*)"\)').group(2))
    X["int"] = rust_str_literal(arm("Integer", r'format!\("((?:[^"\\]|\\.)*)"\)').group(2))
    X["bool"] = rust_str_literal(arm("Boolean", r'format!\("((?:[^"\\]|\\.)*)"\)').group(2))
    X["null"] = rust_str_literal(arm("Null", r'"((?:[^"\\]|\\.)*)"\.to_string\(\)').group(2))
    X["enum"] = rust_str_literal(arm("Enum", r'format!\("((?:[^"\\]|\\.)*)"\)').group(2))
    m = arm("String", r'format!\(\s*"((?:[^"\\]|\\.)*)",\s*string\s*\.lookup\(\)\s*\.chars\(\)\s*\.map\(\|c\| match c \{\s*(.*?)=> c,\s*_ => \'(.)\',\s*\}\)\s*\.collect::<String>\(\),?\s*\)')
    X["str"] = rust_str_literal(m.group(2))
    ranges = []
    for part in m.group(3).split("|"):
        part = part.strip()
        mm = re.fullmatch(r"'(.)'\.\.='(.)'", part)
        if mm:
            ranges.append((ord(mm.group(1)), ord(mm.group(2))))
            continue
        mm = re.fullmatch(r"'(.)'", part)
        need(mm, "character class part %r" % part)
        ranges.append((ord(mm.group(1)), ord(mm.group(1))))
    X["str_keep"] = ranges
    X["str_repl"] = m.group(4)
    m = arm("Object", r'\{\s*format!\(\s*"((?:[^"\\]|\\.)*)",\s*object\s*\.iter\(\)\s*\.map\(\|pair\| format!\(\s*"((?:[^"\\]|\\.)*)",\s*pair\.name\.item,\s*pair\.value\.item\.to_alias_str_chunk\(\)\s*\)\)\s*\.collect::<Vec<_>>\(\)\s*\.join\("((?:[^"\\]|\\.)*)"\)\s*\)')
    X["obj"], X["pair"], X["join"] = (rust_str_literal(m.group(i)) for i in (2, 3, 4))
    # named-argument templates like "v_{name}" -> prefix
    for k in ("var", "int", "bool", "enum"):
        mm = re.fullmatch(r"([^{}]*)\{\w*\}", X[k])
        need(mm, "template %r for %s is not prefix + value" % (X[k], k))
        X[k] = mm.group(1)
    mm = need(re.fullmatch(r"([^{}]*)\{\}", X["str"]), "string template")
    X["str"] = mm.group(1)
    mm = need(re.fullmatch(r"([^{}]*)\{\}([^{}]*)", X["obj"]), "object template")
    X["obj_pre"], X["obj_post"] = mm.group(1), mm.group(2)
    mm = need(re.fullmatch(r"\{\}([^{}]*)\{\}", X["pair"]), "pair template")
    X["pair_sep"] = mm.group(1)
    mm = need(re.fullmatch(r"\{\}([^{}]*)\{\}", X["arg_tmpl"]), "argument template")
    X["arg_sep"] = mm.group(1)
    msrc = read_repo(F_MERGE)
    fn = re.sub(r"//[^\n]*", "", extract_fn(msrc, "get_aliased_mutation_field_name"))
    m = need(re.search(r'let mut s = name\.to_string\(\);\s*for param in parameters\.iter\(\) \{\s*s\.push_str\("((?:[^"\\]|\\.)*)"\);\s*s\.push_str\(&param\.to_alias_str_chunk\(\)\);\s*\}\s*s\s*\}', fn), "get_aliased_mutation_field_name shape")
    X["first_sep"] = rust_str_literal(m.group(1))
    return X


F_TOK = "crates/isograph_lang_parser/src/token_kind.rs"


def extract_lexer():
    """what the iso lexer lets into a string literal: plain characters and two-character escapes"""
    tok = read_repo(F_TOK)
    m = need(re.search(r'#\[regex\(r#"\[((?:\\u[0-9A-Fa-f]{4}(?:-\\u[0-9A-Fa-f]{4})?)+)\]\+"#\)\]\s*StringCharacters,', tok), "StringCharacters token definition")
    ranges = []
    for a, b in re.findall(r"\\u([0-9A-Fa-f]{4})(?:-\\u([0-9A-Fa-f]{4}))?", m.group(1)):
        ranges.append((int(a, 16), int(b, 16) if b else int(a, 16)))
    m = need(re.search(r'#\[regex\(r#"\\\\\[((?:[^\]\\]|\\.)*)\]"#\)\]\s*EscapedCharacter,', tok), "EscapedCharacter token definition")
    esc = []
    body = m.group(1)
    i = 0
    while i < len(body):
        if body[i] == "\\":
            esc.append(body[i + 1]); i += 2
        else:
            esc.append(body[i]); i += 1
    need(re.search(r"EscapedUnicode,", tok), "EscapedUnicode token")
    return {"plain_ranges": ranges, "escapes": esc}


JS_ESCAPE_VALUE = {'"': 0x22, "\\": 0x5C, "/": 0x2F, "b": 8, "f": 12, "n": 10, "r": 13, "t": 9}


def extract_ts():
    src = read_repo(F_TS)
    T = {}
    for name in ("FIRST_SPLIT_KEY", "SECOND_SPLIT_KEY", "THIRD_SPLIT_KEY"):
        m = need(re.search(r"export const %s = '([^']*)';" % name, src), name)
        T[name] = m.group(1)
    i = src.index("function getArgumentValueChunk(argumentValue: ArgumentValue): string {")
    fn = src[i:src.index("\n}\n", i) + 3]
    T["fn_text"] = fn
    body = re.sub(r"//[^\n]*", "", fn)
    body = re.sub(r"\s+", " ", body)
    m = need(re.search(r"case 'Object': \{ return \( '([^']*)' \+ argumentValue\.value \.map\(\(\[argumentName, argumentValue\]\) => \{ return \( argumentName \+ THIRD_SPLIT_KEY \+ getArgumentValueChunk\(argumentValue\) \); \}\) \.join\('([^']*)'\) \+ '([^']*)' \); \}", body), "TS Object case")
    T["obj_pre"], T["join"], T["obj_post"] = m.group(1), m.group(2), m.group(3)
    m = need(re.search(r"case 'Literal': \{ return '([^']*)' \+ argumentValue\.value; \}", body), "TS Literal case")
    T["lit"] = m.group(1)
    m = need(re.search(r"case 'Variable': \{ return '([^']*)' \+ argumentValue\.name; \}", body), "TS Variable case")
    T["var"] = m.group(1)
    m = need(re.search(r"case 'String': \{ return '([^']*)' \+ argumentValue\.value\.replaceAll\(/\\W(\+?)/g, '([^']*)'\); \}", body), "TS String case")
    T["str"], T["str_collapse"], T["str_repl"] = m.group(1), m.group(2) == "+", m.group(3)
    m = need(re.search(r"case 'Enum': \{ return '([^']*)' \+ argumentValue\.value; \}", body), "TS Enum case")
    T["enum"] = m.group(1)
    i = src.index("function getNetworkResponseKey(\n  astNode: NormalizationLinkedField | NormalizationScalarField,")
    kfn = src[i:src.index("\n}\n", i) + 3]
    T["key_fn_text"] = kfn
    kb = re.sub(r"\s+", " ", kfn)
    need(re.search(r"let networkResponseKey = astNode\.fieldName; const fieldParameters = astNode\.arguments; if \(fieldParameters != null\) \{ for \(const \[argumentName, argumentValue\] of fieldParameters\) \{ let argumentValueChunk = getArgumentValueChunk\(argumentValue\); networkResponseKey \+= `\$\{FIRST_SPLIT_KEY\}\$\{argumentName\}\$\{SECOND_SPLIT_KEY\}\$\{argumentValueChunk\}`; \} \} return networkResponseKey;", kb), "getNetworkResponseKey shape")
    # how the compiler hands the values to the runtime (normalization AST kinds)
    gsrc = read_repo("crates/artifact_content/src/generate_artifacts.rs")
    for kind, js in (("Variable", 'kind: \\"Variable\\", name: \\"{variable_name}\\"'), ("Integer", 'kind: \\"Literal\\", value: {int_value}'),
                     ("Boolean", 'kind: \\"Literal\\", value: {bool_string}'), ("String", 'kind: \\"String\\", value: \\"{s}\\"'),
                     ("Null", 'kind: \\"Literal\\", value: null'), ("Enum", 'kind: \\"Enum\\", value: \\"{e}\\"')):
        if js not in gsrc:
            raise Inconclusive("encoding not regenerable: normalization AST emission for %s changed" % kind)
    return T


# ---------------------------------------------------------------- symbolic value domain (shape-indexed)
#
# A *shape* fixes the number of arguments and the kind of every value (and the number of entries of an
# object); names, integers, booleans and string characters stay symbolic. The checks enumerate every
# shape (pair) inside the bound and discharge one small query per shape: with the kinds symbolic as well,
# z3's sequence solver did not finish a single unsat query in 10 minutes (measured).

S = z3.StringVal
US = z3.Range("_", "_")        # (re.range "_" "_"): portable across z3 4.8 / z3 5 / cvc5 (z3.Re("_") dumps as (_ Char 95))
NAME_RE = z3.Concat(z3.Union(z3.Range("a", "z"), z3.Range("A", "Z"), US),
                    z3.Star(z3.Union(z3.Range("a", "z"), z3.Range("A", "Z"), z3.Range("0", "9"), US)))
WORD_RE = z3.Union(z3.Range("a", "z"), z3.Range("A", "Z"), z3.Range("0", "9"), US)
ALNUM_RE = z3.Union(z3.Range("a", "z"), z3.Range("A", "Z"), z3.Range("0", "9"))
ASTRAL_RE = z3.Range("\\u{10000}", "\\u{2ffff}")
SURROGATE_RE = z3.Range("\\u{d800}", "\\u{dfff}")
LEAF_KINDS = ["var", "int", "bool", "null", "enum", "str"]


def value_shapes(B):
    out = [("leaf", k) for k in LEAF_KINDS]
    import itertools
    for m in range(B["objlen"] + 1):
        for ks in itertools.product(LEAF_KINDS, repeat=m):
            out.append(("obj", ks))
    return out


def selection_shapes(B):
    import itertools
    vs = value_shapes(B)
    out = []
    for n in range(B["args"] + 1):
        for combo in itertools.product(vs, repeat=n):
            out.append(tuple(combo))
    return out


def dec(n):
    return z3.If(n < 0, z3.Concat(S("-"), z3.IntToStr(-n)), z3.IntToStr(n))


def cat(*xs):
    xs = list(xs)
    return xs[0] if len(xs) == 1 else z3.Concat(*xs)


class SLeaf:
    def __init__(self, q, pfx, kind, B, X, T):
        self.kind = kind
        self.payload = []          # terms compared for structural equality
        self.names, self.ints, self.cps, self.slen = [], [], [], None
        self.nonalnum, self.escaped = [], []
        if kind in ("var", "enum"):
            n = z3.String(pfx + "_n")
            q.add(z3.InRe(n, NAME_RE), z3.Length(n) <= B["namelen"])
            self.names.append(n)
            self.payload.append(n)
            self.rust = cat(S(X[kind]), n)
            self.ts = cat(S(T[kind]), n)
        elif kind == "int":
            # the integer is represented by its canonical decimal rendering (injective, so two integers
            # differ iff the strings differ); z3's IntToStr made single shape queries time out.
            d = z3.String(pfx + "_d")
            digits = z3.Union(z3.Re("0"), z3.Concat(z3.Range("1", "9"), z3.Loop(z3.Range("0", "9"), 0, 17)))
            q.add(z3.InRe(d, z3.Union(digits, z3.Concat(z3.Re("-"), z3.Range("1", "9"), z3.Loop(z3.Range("0", "9"), 0, 17)))))
            self.ints.append(d)
            self.payload.append(d)
            self.rust = cat(S(X["int"]), d)
            self.ts = cat(S(T["lit"]), d)               # valid for |i| <= 2^53 (required where used)
        elif kind == "bool":
            b = z3.Bool(pfx + "_b")
            self.payload.append(b)
            t = z3.If(b, S("true"), S("false"))
            self.rust = cat(S(X["bool"]), t)
            self.ts = cat(S(T["lit"]), t)
        elif kind == "null":
            self.rust = S(X["null"])
            self.ts = cat(S(T["lit"]), S("null"))
        else:
            # A string literal is a sequence of units: a plain character the lexer accepts (length-1 string variable), or a
            # two-character escape \\x. The compiler keeps the raw text (both characters); the runtime sees the string after
            # JavaScript has evaluated the emitted double-quoted literal (one character per escape).
            LX = B["lexer"]
            self.slen = z3.Int(pfx + "_sl")
            self.cps = [z3.String("%s_c%d" % (pfx, i)) for i in range(B["strlen"])]
            self.esc = [z3.Bool("%s_q%d" % (pfx, i)) for i in range(B["strlen"])]
            self.ech = [z3.String("%s_e%d" % (pfx, i)) for i in range(B["strlen"])]
            q.add(self.slen >= 0, self.slen <= B["strlen"])
            keep_re = z3.Union(*[z3.Range(chr(lo), chr(hi)) for lo, hi in X["str_keep"]])
            def u(cp):
                return chr(cp) if 32 <= cp < 127 and chr(cp) not in '"\\' else "\\u{%x}" % cp
            plain_re = z3.Union(*[z3.Range(u(lo), u(hi)) for lo, hi in LX["plain_ranges"]])
            esc_re = z3.Union(*[z3.Range(u(ord(ch)), u(ord(ch))) for ch in LX["escapes"]])
            r, t = S(""), S("")
            rr = S(T["str_repl"])
            self.nonalnum, self.escaped = [], []
            prev_nonword = z3.BoolVal(False)
            for i, (c, e, k) in enumerate(zip(self.cps, self.ech, self.esc)):
                q.add(z3.Length(c) == 1, z3.InRe(c, plain_re), z3.Not(z3.InRe(c, SURROGATE_RE)))
                q.add(z3.Length(e) == 1, z3.InRe(e, esc_re))
                q.add(z3.Implies(i >= self.slen, z3.And(c == S("a"), z3.Not(k))))
                q.add(z3.Implies(k, c == S("a")), z3.Implies(z3.Not(k), e == S("n")))
                rust_unit = z3.If(k, cat(S(X["str_repl"]), z3.If(z3.InRe(e, keep_re), e, S(X["str_repl"]))),
                                  z3.If(z3.InRe(c, keep_re), c, S(X["str_repl"])))
                nonword = z3.Or(k, z3.Not(z3.InRe(c, WORD_RE)))        # every escape evaluates to a non-word character
                if T.get("str_collapse"):
                    ts_unit = z3.If(nonword, z3.If(prev_nonword, S(""), rr), c)
                else:
                    ts_unit = z3.If(nonword, rr, c)
                r = z3.If(i < self.slen, cat(r, rust_unit), r)
                t = z3.If(i < self.slen, cat(t, ts_unit), t)
                prev_nonword = z3.And(i < self.slen, nonword)
                self.nonalnum.append(z3.And(i < self.slen, z3.Or(k, z3.Not(z3.InRe(c, ALNUM_RE)))))
                self.escaped.append(z3.And(i < self.slen, k))
            self.payload += [self.slen] + self.cps + self.ech + self.esc
            self.rust = cat(S(X["str"]), r)
            self.ts = cat(S(T["str"]), t)


class SSel:
    def __init__(self, q, pfx, shape, B, X, T):
        self.shape = shape
        self.field = z3.String(pfx + "_f")
        q.add(z3.InRe(self.field, NAME_RE), z3.Length(self.field) <= B["namelen"])
        self.names = [self.field]
        self.leaves = []
        self.payload = [self.field]
        self.leaf_chunks = []      # (rust chunk, ts chunk) of every leaf value
        rk, tk = self.field, self.field
        for ai, vshape in enumerate(shape):
            an = z3.String("%s_a%d" % (pfx, ai))
            q.add(z3.InRe(an, NAME_RE), z3.Length(an) <= B["namelen"])
            self.names.append(an)
            self.payload.append(an)
            if vshape[0] == "leaf":
                l = SLeaf(q, "%s_x%d" % (pfx, ai), vshape[1], B, X, T)
                self.leaves.append(l)
                self.leaf_chunks.append((l.rust, l.ts))
                rc, tc = l.rust, l.ts
            else:
                rin, tin = [], []
                for ei, k in enumerate(vshape[1]):
                    kn = z3.String("%s_k%d_%d" % (pfx, ai, ei))
                    q.add(z3.InRe(kn, NAME_RE), z3.Length(kn) <= B["namelen"])
                    self.names.append(kn)
                    self.payload.append(kn)
                    l = SLeaf(q, "%s_x%d_%d" % (pfx, ai, ei), k, B, X, T)
                    self.leaves.append(l)
                    self.leaf_chunks.append((l.rust, l.ts))
                    if rin:
                        rin.append(S(X["join"])); tin.append(S(T["join"]))
                    rin += [kn, S(X["pair_sep"]), l.rust]
                    tin += [kn, S(T["THIRD_SPLIT_KEY"]), l.ts]
                rc = cat(S(X["obj_pre"]), *rin, S(X["obj_post"]))
                tc = cat(S(T["obj_pre"]), *tin, S(T["obj_post"]))
            rk = cat(rk, S(X["first_sep"]), an, S(X["arg_sep"]), rc)
            tk = cat(tk, S(T["FIRST_SPLIT_KEY"]), an, S(T["SECOND_SPLIT_KEY"]), tc)
        for l in self.leaves:
            self.names += l.names
            self.payload += l.payload
        self.rust_key, self.ts_key = rk, tk

    def differs(self, o):
        if self.shape != o.shape:
            return z3.BoolVal(True)
        return z3.Or(*[a != b for a, b in zip(self.payload, o.payload)])


# ---------------------------------------------------------------- classes of known findings (as predicates)

def cls_string_nonalnum(sel):
    """a string literal containing a character outside [A-Za-z0-9] (rewritten by the sanitiser, or '_'), escapes included"""
    out = [x for l in sel.leaves for x in l.nonalnum]
    return z3.Or(*out) if out else z3.BoolVal(False)


def cls_underscore_names(sel):
    """a name that contains an underscore (found by the thorough tier: even single interior underscores collide with the
    object join, e.g. {a: E, b_c: true} and {a: E_b, c: true} both give o_a__e_E_b_c__l_true_c)"""
    return z3.Or(*[z3.Contains(n, S("_")) for n in sel.names])


def cls_negative_int(sel):
    out = [z3.PrefixOf(S("-"), i) for l in sel.leaves for i in l.ints]
    return z3.Or(*out) if out else z3.BoolVal(False)


def cls_escape(sel):
    """a string literal containing a backslash escape"""
    out = [x for l in sel.leaves for x in l.escaped]
    return z3.Or(*out) if out else z3.BoolVal(False)


def unsafe_int(sel):
    out = [z3.Length(i) > 15 for l in sel.leaves for i in l.ints]      # 15 digits (or sign + 14) stay below 2^53
    return z3.Or(*out) if out else z3.BoolVal(False)


# ---------------------------------------------------------------- model -> JSON for the native drivers

def smt_char(v):
    """code point of a z3 string value of length 1 (z3 prints non-ASCII as \\u{hex})"""
    t = v.as_string()
    m = re.fullmatch(r"\\u\{([0-9a-fA-F]+)\}", t)
    if m:
        return int(m.group(1), 16)
    if len(t) != 1:
        raise Inconclusive("cannot decode model character %r" % t)
    return ord(t)


def leaf_json(m, l):
    ev = lambda x: m.eval(x, model_completion=True)
    k = l.kind
    if k == "var": return {"k": "var", "n": ev(l.names[0]).as_string()}
    if k == "int": return {"k": "int", "v": ev(l.ints[0]).as_string()}
    if k == "bool": return {"k": "bool", "v": z3.is_true(ev(l.payload[0]))}
    if k == "null": return {"k": "null"}
    if k == "enum": return {"k": "enum", "n": ev(l.names[0]).as_string()}
    n = ev(l.slen).as_long()
    raw = ""
    for c, e, k in list(zip(l.cps, l.ech, l.esc))[:n]:
        raw += ("\\" + chr(smt_char(ev(e)))) if z3.is_true(ev(k)) else chr(smt_char(ev(c)))
    return {"k": "str", "raw": raw}


def sel_json(m, sel):
    ev = lambda x: m.eval(x, model_completion=True)
    names = iter(sel.names[1:])
    leaves = iter(sel.leaves)
    args = []
    for vshape in sel.shape:
        an = ev(next(names)).as_string()
        if vshape[0] == "leaf":
            args.append([an, leaf_json(m, next(leaves))])
        else:
            es = []
            for _k in vshape[1]:
                kn = ev(next(names)).as_string()
                es.append([kn, leaf_json(m, next(leaves))])
            args.append([an, {"k": "obj", "e": es}])
    return {"field": ev(sel.field).as_string(), "args": args}


def shape_of(pr):
    return tuple(("obj", tuple(e[1]["k"] for e in v["e"])) if v["k"] == "obj" else ("leaf", v["k"]) for _a, v in pr["args"])


def run_ts(T, items):
    """items: [(fieldName, norm_args_js)] where norm_args_js is the JavaScript text the real compiler emitted for the arguments.
    Evaluates the real getNetworkResponseKey / getArgumentValueChunk text (types stripped) in node on the evaluated arguments."""
    fn = T["fn_text"].replace("(argumentValue: ArgumentValue): string", "(argumentValue)")
    kfn = T["key_fn_text"]
    kfn = re.sub(r"function getNetworkResponseKey\(\s*astNode: NormalizationLinkedField \| NormalizationScalarField,\s*\): NetworkResponseKey \{", "function getNetworkResponseKey(astNode) {", kfn)
    js = "const FIRST_SPLIT_KEY=%s, SECOND_SPLIT_KEY=%s, THIRD_SPLIT_KEY=%s;\n%s\n%s\n" % (
        json.dumps(T["FIRST_SPLIT_KEY"]), json.dumps(T["SECOND_SPLIT_KEY"]), json.dumps(T["THIRD_SPLIT_KEY"]), fn, kfn)
    js += """
const lines=require('fs').readFileSync(0,'utf8').split('\\n').filter(x=>x.trim());
for (const l of lines){ const [name, text] = JSON.parse(l); let out;
  try { const args = (0, eval)('(' + text + ')'); out = getNetworkResponseKey({fieldName: name, arguments: args}); }
  catch (e) { out = 'JS-ERROR: ' + e.message; }
  console.log(JSON.stringify(out)); }
"""
    p = subprocess.run(["node", "-e", js], input="\n".join(json.dumps(list(a)) for a in items) + "\n", capture_output=True, text=True, timeout=60)
    if p.returncode != 0:
        raise Inconclusive("node evaluation of the extracted runtime functions failed: " + p.stderr[-400:])
    return [json.loads(x) for x in p.stdout.splitlines()]


def build_alias_driver():
    import shutil
    d = os.path.join(NATIVE_DIR, "alias_driver")
    shutil.copyfile(os.path.join(REPO, "Cargo.lock"), os.path.join(d, "Cargo.lock"))
    from common import run as _run, env_offline as _env, BUILD as _B
    rc, out, wall, to = _run(["cargo", "build", "--release"], cwd=d, timeout=2400,
                             env=_env({"CARGO_TARGET_DIR": os.path.join(_B, "native_hooks"), "RUSTFLAGS": "--cfg kani"}))
    if rc != 0:
        raise Inconclusive("native driver alias_driver does not build against /repo (hooks on): " + out[-800:])
    return os.path.join(_B, "native_hooks", "release", "alias_driver")


def run_rust(binary, sels):
    """[(compiler key, emitted normalization-AST argument text)]"""
    out = [json.loads(x) for x in run_native(binary, [json.dumps(s) for s in sels])]
    return [(o["key"], o["norm_args"]) for o in out]


def keys_both(binary, T, sels):
    rs = run_rust(binary, sels)
    ts = run_ts(T, [(sj["field"], r[1]) for sj, r in zip(sels, rs)])
    return [r[0] for r in rs], ts


def extract_ts_text_only():
    """the runtime function texts and split keys only (no shape requirements): enough to evaluate them in node"""
    src = read_repo(F_TS)
    T = {}
    for name in ("FIRST_SPLIT_KEY", "SECOND_SPLIT_KEY", "THIRD_SPLIT_KEY"):
        m = need(re.search(r"export const %s = '([^']*)';" % name, src), name)
        T[name] = m.group(1)
    i = src.find("function getArgumentValueChunk(argumentValue: ArgumentValue): string {")
    j = src.find("function getNetworkResponseKey(\n  astNode: NormalizationLinkedField | NormalizationScalarField,")
    if i < 0 or j < 0:
        raise Inconclusive("encoding not regenerable: runtime key functions not found in cache.ts")
    T["fn_text"] = src[i:src.index("\n}\n", i) + 3]
    T["key_fn_text"] = src[j:src.index("\n}\n", j) + 3]
    return T


GRAPHQL_NAME = re.compile(r"^[_A-Za-z][_0-9A-Za-z]*$")

PROBES = [
    {"field": "f", "args": []},
    {"field": "pullRequests", "args": [["first", {"k": "var", "n": "first"}], ["after", {"k": "var", "n": "cursor"}]]},
    {"field": "f", "args": [["a", {"k": "int", "v": "5"}], ["b", {"k": "bool", "v": True}], ["c", {"k": "null"}], ["d", {"k": "enum", "n": "ASC"}]]},
    {"field": "f", "args": [["a", {"k": "str", "cp": [97, 66, 48, 95]}]]},
    {"field": "f", "args": [["a", {"k": "str", "cp": [97, 32, 98]}]]},
    {"field": "f", "args": [["in", {"k": "obj", "e": [["x", {"k": "var", "n": "v"}], ["y", {"k": "int", "v": "7"}]]}]]},
    {"field": "f", "args": [["in", {"k": "obj", "e": []}]]},
    {"field": "f", "args": [["a", {"k": "int", "v": "9007199254740992"}]]},
    {"field": "f", "args": [["a", {"k": "str", "cp": [233]}]]},
    {"field": "search", "args": [["query", {"k": "str", "cp": [104, 44, 32, 119]}]]},
    {"field": "f", "args": [["a", {"k": "bool", "v": False}], ["b", {"k": "int", "v": "0"}], ["c", {"k": "enum", "n": "A_B"}], ["d", {"k": "var", "n": "x_1"}]]},
    {"field": "f", "args": [["in", {"k": "obj", "e": [["x", {"k": "str", "cp": [97, 95, 49]}], ["y", {"k": "null"}]]}]]},
]


def raw_units(v):
    """[(is_escape, char)] of a probe string given as code points (plain) or raw text"""
    if "cp" in v:
        return [(False, chr(x)) for x in v["cp"]]
    out, raw, i = [], v["raw"], 0
    while i < len(raw):
        if raw[i] == "\\":
            out.append((True, raw[i + 1])); i += 2
        else:
            out.append((False, raw[i])); i += 1
    return out


def pin(q, sel, pr):
    """constrain a symbolic selection (built with shape_of(pr)) to the concrete probe"""
    def pin_leaf(l, v):
        if l.kind in ("var", "enum"): q.add(l.names[0] == S(v["n"]))
        if l.kind == "int": q.add(l.ints[0] == S(v["v"]))
        if l.kind == "bool": q.add(l.payload[0] == v["v"])
        if l.kind == "str":
            units = raw_units(v)
            q.add(l.slen == len(units))
            for c, e, k, (is_esc, ch) in zip(l.cps, l.ech, l.esc, units):
                lit = S(ch if 32 <= ord(ch) < 127 and ch not in '"\\' else "\\u{%x}" % ord(ch))
                q.add(k == is_esc, (e == lit) if is_esc else (c == lit))
    names = iter(sel.names[1:])
    leaves = iter(sel.leaves)
    q.add(sel.field == S(pr["field"]))
    for a, v in pr["args"]:
        q.add(next(names) == S(a))
        if v["k"] == "obj":
            for k, lv in v["e"]:
                q.add(next(names) == S(k))
                pin_leaf(next(leaves), lv)
        else:
            pin_leaf(next(leaves), v)


class ShapeSweep:
    """One logical query = the disjunction over all shapes (pairs); discharged shape by shape."""
    def __init__(self, name):
        self.name = name
        self.n = 0
        self.n_unsat = 0
        self.time_s = 0.0
        self.sat = None        # (model, objects)

    def summary(self, note=""):
        return {"query": self.name, "result": "sat" if self.sat else "unsat", "shape_queries": self.n, "unsat_shapes": self.n_unsat,
                "solver_s": round(self.time_s, 2), "note": note}


def sweep(name, items, build, stop_at_first_sat=True, budget_s=None, portfolio=False, skip_unknown=False):
    sw = ShapeSweep(name)
    t0 = time.time()
    for it in items:
        q = Query(name, solver_timeout_s=(15 if skip_unknown else 120), simple=True)
        objs = build(q, it)
        if objs is None:
            continue
        try:
            r = q.check_portfolio(timeout_s=60) if portfolio else q.check(cross_check=False)
        except Inconclusive as e:
            if skip_unknown:        # looking for one witness only: an undecided shape is skipped, not counted
                continue
            raise Inconclusive("%s on shape %r after %d shape queries" % (e, it, sw.n))
        sw.n += 1
        sw.time_s += q.time_s
        if r == "sat":
            sw.sat = (q.model(), objs)
            if stop_at_first_sat:
                break
        else:
            sw.n_unsat += 1
        if budget_s and time.time() - t0 > budget_s:
            raise Inconclusive("sweep %s exceeded its time budget after %d shape queries" % (name, sw.n))
    return sw


def psweep(name, items, build, portfolio=False, nproc=14):
    """sweep() over the items in nproc forked workers (each worker builds and solves its own queries)."""
    items = list(items)
    if len(items) < 8:
        return sweep(name, items, build, portfolio=portfolio)
    nproc = min(nproc, len(items))
    chunks = [list(range(len(items)))[i::nproc] for i in range(nproc)]
    kids = []
    for ch in chunks:
        r, w = os.pipe()
        pid = os.fork()
        if pid == 0:
            os.close(r)
            res = {"n": 0, "n_unsat": 0, "time_s": 0.0, "sat_index": None, "error": None}
            try:
                for idx in ch:
                    sw = sweep(name, [items[idx]], build, portfolio=portfolio)
                    res["n"] += sw.n
                    res["n_unsat"] += sw.n_unsat
                    res["time_s"] += sw.time_s
                    if sw.sat:
                        res["sat_index"] = idx
                        break
            except Inconclusive as e:
                res["error"] = str(e)
            except BaseException as e:
                res["error"] = "worker failed: %r" % (e,)
            with os.fdopen(w, "w") as f:
                f.write(json.dumps(res))
            os._exit(0)
        os.close(w)
        kids.append((pid, r))
    total = ShapeSweep(name)
    sat_idx, errors = [], []
    for pid, r in kids:
        with os.fdopen(r) as f:
            data = f.read()
        os.waitpid(pid, 0)
        try:
            res = json.loads(data)
        except ValueError:
            errors.append("worker died without a result")
            continue
        total.n += res["n"]
        total.n_unsat += res["n_unsat"]
        total.time_s += res["time_s"]
        if res["error"]:
            errors.append(res["error"])
        if res["sat_index"] is not None:
            sat_idx.append(res["sat_index"])
    if sat_idx:
        sw = sweep(name, [items[min(sat_idx)]], build, portfolio=False)
        if not sw.sat:
            raise Inconclusive("sweep %s: a worker reported sat but the model could not be reproduced in the parent" % name)
        total.sat = sw.sat
        return total
    if errors:
        raise Inconclusive("; ".join(errors[:3]))
    return total


PROBES += [
    {"field": "f", "args": [["a", {"k": "str", "raw": "x\\\"y"}]]},
    {"field": "f", "args": [["a", {"k": "str", "raw": "l1\\nl2"}]]},
    {"field": "f", "args": [["a", {"k": "str", "raw": "it's"}]]},
]
PROBES_WITH_ESCAPES = [PROBES[-3], PROBES[-2]]
PROBES_IN_KNOWN_CLASS = [PROBES[-3], PROBES[-2], PROBES[-1], PROBES[4], PROBES[8], PROBES[9]]      # strings with sanitised characters: string-sanitisation class (collision test only)


def main():
    t0 = time.time()
    T_ = tier()
    B = {"args": 2, "namelen": 4, "strlen": 2, "objlen": 1} if T_ == "quick" else {"args": 2, "namelen": 5, "strlen": 2, "objlen": 1}     # objects of 2 entries: measured, pairs of (int,int) objects exceed 60 s in cvc5, z3 5.1 and z3 4.8.12 (DESIGN M14)
    violations, known_lines, infra, queries, samples = [], [], [], [], []
    n_valid = 0
    kf = known_findings(PROP)
    known = {k: t for kind, k, t in kf if kind == "known" and k}
    X = T = None
    os.makedirs(os.path.join(REPLAYS, PROP), exist_ok=True)
    def replay(sj_list, what, tag):
        rp = os.path.join(REPLAYS, PROP, tag)
        os.makedirs(rp, exist_ok=True)
        with open(os.path.join(rp, "input.jsonl"), "w") as f:
            for sj in sj_list:
                f.write(json.dumps(sj) + "\n")
        with open(os.path.join(rp, "REPLAY.md"), "w") as f:
            f.write("Property C12: %s\nRun: bash %s/replay.sh   (prints the compiler's response keys for the selections in input.jsonl, computed by the real crates)\n" % (what, rp))
        with open(os.path.join(rp, "replay.sh"), "w") as f:
            f.write("#!/bin/bash\n%s < %s/input.jsonl\nexit 1\n" % (os.path.join(os.path.dirname(REPLAYS), "build", "native", "release", "alias_driver"), rp))
        return rp

    try:
        binary = build_alias_driver()
        LX = extract_lexer()
        B["lexer"] = LX
        # ---- stage 0 (not solver-decided, a guard that does not depend on the translator): the probe inputs of the
        # translator validation are run through both real implementations; a compiler/runtime disagreement or an illegal
        # key on a probe outside the known classes is a reproduced violation whatever the source now looks like.
        T0 = extract_ts_text_only()
        rk, tk = keys_both(binary, T0, PROBES)
        for pr, r_nat, t_nat in zip(PROBES, rk, tk):
            if pr in PROBES_WITH_ESCAPES and "string-escape-sequence" in known:
                continue
            # agreement is expected on every probe (none contains a non-BMP character), legality on every probe
            # (none contains a negative integer); only the collision test below skips the sanitised strings
            if r_nat != t_nat:
                violations.append(("compiler and runtime disagree on probe %s: %r vs %r" % (json.dumps(pr), r_nat, t_nat), replay([pr], "probe disagreement", "C12_probe_agree")))
            elif not GRAPHQL_NAME.match(r_nat):
                violations.append(("illegal key on probe %s: %r" % (json.dumps(pr), r_nat), replay([pr], "probe illegal key", "C12_probe_legal")))
        rk_inj = [k for pr, k in zip(PROBES, rk) if pr not in PROBES_IN_KNOWN_CLASS]
        if len(set(rk_inj)) != len(rk_inj):
            violations.append(("two different probes get the same key: %r" % (rk,), replay(PROBES, "probe collision", "C12_probe_inj")))
        samples.append({"native_probe_agreement": [json.dumps(PROBES[5]), rk[5], tk[5]]})

        X = extract_rust()
        T = extract_ts()
        for lo, hi in X["str_keep"]:
            if hi > 127:
                raise Inconclusive("encoding not regenerable: kept character class is not ASCII")

        # ---- translator validation: concrete probes through the encoding (solver) and through both real implementations
        BV = {"args": 4, "namelen": 12, "strlen": 4, "objlen": 2, "lexer": LX}
        for pr, r_nat, t_nat in zip(PROBES, rk, tk):
            q = Query("C12_validate", simple=True)
            sel = SSel(q, "p", shape_of(pr), BV, X, T)
            pin(q, sel, pr)
            q.add(z3.Or(sel.rust_key != S(r_nat), sel.ts_key != S(t_nat)))
            if q.check(cross_check=False) != "unsat":
                raise Inconclusive("translator validation failed on %s: encoding disagrees with the real code (rust %r, ts %r)" % (json.dumps(pr), r_nat, t_nat))
            n_valid += 1
        samples.append({"translator_validation": [json.dumps(PROBES[1]), rk[1], tk[1]]})

        def decide(qname, items, build, class_preds, replay_fn, what):
            listed = [k for k in class_preds if k in known]
            for k in listed:
                def bw(q, it, k=k):
                    objs = build(q, it)
                    if objs is None:
                        return None
                    q.add(class_preds[k](objs))
                    for k2 in listed:
                        if k2 != k:
                            q.add(z3.Not(class_preds[k2](objs)))
                    return objs
                sw = sweep(qname + "_witness_" + k, items, bw, skip_unknown=True)
                queries.append(sw.summary("witness of known class " + k))
                log("  %s witness[%s]: %s after %d shape queries (%.1fs)" % (qname, k, "sat" if sw.sat else "unsat", sw.n, sw.time_s))
                if sw.sat:
                    ok, sjs, detail = replay_fn(*sw.sat)
                    samples.append({"query": sw.name, "inputs": sjs, "native": detail})
                    if ok:
                        rp = replay(sjs, what + " (known class %s)" % k, qname + "_" + k)
                        known_lines.append("key=%s %s (witness %s -> %s, replay %s)" % (k, known[k], json.dumps(sjs), detail, rp))
                    else:
                        infra.append("%s: witness of known class %s does not reproduce natively: %s" % (qname, k, detail))
                else:
                    log("  note: known finding %s no longer reproduces" % k)
            def br(q, it):
                objs = build(q, it)
                if objs is None:
                    return None
                for k in listed:
                    q.add(z3.Not(class_preds[k](objs)))
                return objs
            sw = psweep(qname + "_rest", items, br, portfolio=True)
            queries.append(sw.summary("known classes excluded: " + ",".join(listed)))
            log("  %s outside known classes: %s after %d shape queries (%.1fs)" % (qname, "sat" if sw.sat else "unsat", sw.n, sw.time_s))
            if sw.sat:
                ok, sjs, detail = replay_fn(*sw.sat)
                samples.append({"query": sw.name, "inputs": sjs, "native": detail})
                if ok:
                    rp = replay(sjs, what, qname)
                    violations.append(("%s: %s -> %s" % (what, json.dumps(sjs), detail), rp))
                else:
                    infra.append("%s: model does not reproduce natively (%s): %s" % (qname, detail, json.dumps(sjs)))

        shapes = selection_shapes(B)
        # ---- INJ: pairs of shapes. quick: both sides <= 1 argument (objects allowed), plus both sides <= 2 leaf arguments
        import itertools
        small = [sh for sh in shapes if len(sh) <= 1]
        pairs = list(itertools.combinations_with_replacement(small, 2))
        if T_ == "thorough":
            # two leaf arguments (kinds without integers: 4-integer word equations were not decided by any
            # of the three solvers within 60 s) against every selection of at most one argument
            two = [sh for sh in shapes if len(sh) == 2 and all(v[0] == "leaf" and v[1] != "int" for v in sh)]
            pairs += [(a_, b_) for a_ in two for b_ in small]
        def build_inj(q, pair):
            a, b = SSel(q, "s1", pair[0], B, X, T), SSel(q, "s2", pair[1], B, X, T)
            q.add(a.differs(b))
            q.add(a.rust_key == b.rust_key)
            return (a, b)
        def replay_inj(m, objs):
            sjs = [sel_json(m, objs[0]), sel_json(m, objs[1])]
            ks = [r[0] for r in run_rust(binary, sjs)]
            return (sjs[0] != sjs[1] and ks[0] == ks[1]), sjs, "compiler keys %r / %r" % (ks[0], ks[1])
        decide("C12_INJ", pairs, build_inj,
               {"string-sanitisation": lambda o: z3.Or(cls_string_nonalnum(o[0]), cls_string_nonalnum(o[1])),
                "underscore-delimiters-in-names": lambda o: z3.Or(cls_underscore_names(o[0]), cls_underscore_names(o[1]))},
               replay_inj, "two different selections get the same response key")

        one_arg = [sh for sh in shapes if len(sh) == 1]
        NAMECHARS = z3.Star(WORD_RE)
        consts_rust = [X[k] for k in ("first_sep", "arg_sep", "obj_pre", "obj_post", "pair_sep", "join", "var", "int", "bool", "null", "enum", "str", "str_repl")]
        # ---- LEGAL. Lemma (regular languages): field name in NAME and every other piece in [_0-9A-Za-z]* => key in NAME.
        # The constant pieces are checked directly, the value-dependent pieces (leaf chunks) by the solver.
        for c in consts_rust:
            if not re.fullmatch(r"[_0-9A-Za-z]*", c):
                sj = {"field": "f", "args": [["a", {"k": "obj", "e": [["k", {"k": "var", "n": "v"}], ["m", {"k": "str", "cp": [32]}]]}]]}
                k_ = run_rust(binary, [sj])[0][0]
                if not GRAPHQL_NAME.match(k_):
                    violations.append(("a constant piece of the key (%r) is not made of name characters: %s -> %r" % (c, json.dumps(sj), k_), replay([sj], "illegal constant piece", "C12_LEGAL_const")))
        def build_legal(q, sh):
            a = SSel(q, "s1", sh, B, X, T)
            q.add(z3.Or(*[z3.Not(z3.InRe(rc, NAMECHARS)) for rc, _tc in a.leaf_chunks]) if a.leaf_chunks else z3.BoolVal(False))
            return (a,)
        def replay_legal(m, objs):
            sj = sel_json(m, objs[0])
            k = run_rust(binary, [sj])[0][0]
            return (not GRAPHQL_NAME.match(k)), [sj], "compiler key %r" % k
        decide("C12_LEGAL", one_arg, build_legal, {"negative-integer": lambda o: cls_negative_int(o[0])}, replay_legal,
               "the response key is not a legal GraphQL name")

        # ---- AGREE. Lemma: both sides concatenate the same pieces in the same order, so the keys are equal iff
        # the structural constants are equal (checked directly) and every leaf chunk is equal (solver).
        struct_pairs = [("first_sep", "FIRST_SPLIT_KEY"), ("arg_sep", "SECOND_SPLIT_KEY"), ("pair_sep", "THIRD_SPLIT_KEY"),
                        ("join", "join"), ("obj_pre", "obj_pre"), ("obj_post", "obj_post")]
        for rk_, tk_ in struct_pairs:
            if X[rk_] != T[tk_]:
                sj = {"field": "f", "args": [["a", {"k": "obj", "e": [["k", {"k": "var", "n": "v"}], ["m", {"k": "null"}]]}], ["b", {"k": "int", "v": "1"}]]}
                r1s, t1s = keys_both(binary, T, [sj])
                r1, t1 = r1s[0], t1s[0]
                if r1 != t1:
                    violations.append(("compiler and runtime use different structural constants (%s=%r vs %s=%r): %s -> %r vs %r" % (rk_, X[rk_], tk_, T[tk_], json.dumps(sj), r1, t1),
                                       replay([sj], "structural constants differ", "C12_AGREE_const")))
                else:
                    infra.append("structural constants differ (%s) but the probe does not show it" % rk_)
        def build_agree(q, sh):
            a = SSel(q, "s1", sh, B, X, T)
            q.add(z3.Not(unsafe_int(a)))      # integers beyond +-2^53 lose precision in JS: outside the claim (stated)
            q.add(z3.Or(*[rc != tc for rc, tc in a.leaf_chunks]) if a.leaf_chunks else z3.BoolVal(False))
            return (a,)
        def replay_agree(m, objs):
            sj = sel_json(m, objs[0])
            rks, tks = keys_both(binary, T, [sj])
            rk_, tk_ = rks[0], tks[0]
            return rk_ != tk_, [sj], "compiler key %r, runtime key %r" % (rk_, tk_)
        decide("C12_AGREE", one_arg, build_agree, {"string-escape-sequence": lambda o: cls_escape(o[0])}, replay_agree,
               "the runtime computes a different response key than the compiler wrote")
    except Inconclusive as e:
        infra.append(str(e))

    n_shape_q = sum(q.get("shape_queries", 0) for q in queries)
    n_unsat = sum(q.get("unsat_shapes", 0) for q in queries)
    cov = {
        "explanation": "z3 string/integer encoding regenerated from the alias templates of the compiler (to_alias_str_chunk, "
                       "get_aliased_mutation_field_name) and of the runtime (getArgumentValueChunk, getNetworkResponseKey); "
                       "injectivity, legality and compiler/runtime agreement are decided per argument shape (kinds fixed, all names, "
                       "integers, booleans and string characters symbolic); each known class is witnessed and replayed, then excluded, "
                       "and every remaining shape query must be unsat.",
        "functions_encoded": ["NonConstantValueInner::to_alias_str_chunk", "SelectionFieldArgument/ArgumentKeyAndValue::to_alias_str_chunk",
                              "get_aliased_mutation_field_name", "cache.ts getArgumentValueChunk", "cache.ts getNetworkResponseKey"],
        "extracted_rust": X, "extracted_ts": None if not T else {k: v for k, v in T.items() if not k.endswith("_text")},
        "source_fingerprint": repo_fingerprint([F_RS, F_MERGE, F_TS]),
        "bounds": dict(B, integers="|n| < 10^18 as canonical decimal strings (compiler side); at most 15 characters in the agreement query (below 2^53)", code_points="what the iso lexer accepts inside a string literal: the StringCharacters class (re-read from token_kind.rs) and two-character backslash escapes; \\\\uXXXX escapes outside the bound",
                       value_kinds="Variable, Integer, Boolean, Null, Enum, String, Object of leaves; Float and List outside the claim",
                       injectivity_pairs="both sides <= 1 argument (objects allowed)" + ("; plus 2 non-integer leaf arguments against <= 1 argument" if T_ == "thorough" else "")),
        "queries": queries, "queries_discharged": n_shape_q,
        "solver_time_s": round(sum(q["solver_s"] for q in queries), 2),
        "translator_validation_inputs_agreeing": n_valid,
        "evaluations": n_shape_q + n_valid,
        "distinct_nontrivial": n_unsat + len([s_ for s_ in samples if "query" in s_]),
        "rule": "evaluations = per-shape SMT queries discharged + probe inputs on which the encoding equals both real implementations; "
                "distinct_nontrivial = shape queries answered unsat + distinct sat models replayed against the real code",
        "samples": samples[:8] or [{"note": "none"}],
        "exhaustive": False,
        "known_findings_reported": known_lines,
    }
    assumptions = [
        "names (field, argument, variable, enum value, object key) match the GraphQL Name grammar and are at most namelen characters",
        "the runtime key is computed from the JavaScript value of the normalization-AST text the real compiler emits (a double-quoted literal around the raw string): in the encoding an escape evaluates to one non-word character; in replays node evaluates the real emitted text",
        "JS Number -> string equals the decimal rendering for |n| <= 2^53; larger integers, Float and List values are outside the claim",
        "only the direction 'same key => same field and arguments' plus legality and agreement; argument order is taken as written",
        "shape enumeration (argument count and value kinds) is done by the runner, the solver decides all names/numbers/characters per shape",
        "every residual shape query (known classes excluded) is discharged by cvc5, z3 5.1 and z3 4.8.12 on the SMT-LIB2 dump; they must not disagree",
    ]
    write_evidence(PROP, "other", cov, assumptions, time.time() - t0, len(violations))
    finish(PROP, violations, known_lines, infra)


if __name__ == "__main__":
    main()
