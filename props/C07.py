"""C07 (one clause) The iso literal parser never panics on an integer literal.

C07 demands that parsing terminates without panicking for every input and names "extreme numbers". The only
input-dependent panic site of the parser that is not a slice is the integer conversion in
`parse_non_constant_value`. Engine S: the lexer's `IntegerLiteral` regex (token_kind.rs), the conversion
expression and its error handling (parse_iso_literal.rs) and the target type (`NonConstantValueInner::Integer`)
are re-read from source; z3 decides whether a literal the lexer accepts can make the conversion fail while the
failure is turned into a panic. Models are replayed through the real `parse_iso_literal` (native/header_driver)."""
import os, re, json, time, subprocess
import z3
from common import (tier, log, write_evidence, known_findings, finish, repo_fingerprint, REPLAYS)
from smt import Query, Inconclusive, build_native, read_repo, extract_fn

PROP = "C07"
F_TOK = "crates/isograph_lang_parser/src/token_kind.rs"
F_PARSE = "crates/isograph_lang_parser/src/parse_iso_literal.rs"
F_ARG = "crates/isograph_lang_types/src/declarations/selection_argument.rs"
PLUGIN_RE = r"\s*(entrypoint|field|pointer)\s*([^\.\s]+)\s*\.\s*([^\s\(\{@\x22]+)"


def need(m, what):
    if not m:
        raise Inconclusive("encoding not regenerable: " + what)
    return m


def extract():
    tok = read_repo(F_TOK)
    m = need(re.search(r'#\[regex\("((?:[^"\\]|\\.)*)"\)\]\s*IntegerLiteral,', tok), "IntegerLiteral token definition")
    int_re = m.group(1)
    if int_re != "-?(0|[1-9][0-9]*)":
        raise Inconclusive("encoding not regenerable: IntegerLiteral regex %r is not the supported -?(0|[1-9][0-9]*)" % int_re)
    arg = read_repo(F_ARG)
    m = need(re.search(r"pub enum NonConstantValueInner<TLocation> \{[^}]*?Integer\((i8|i16|i32|i64|i128|u8|u16|u32|u64|u128)\)", arg, re.S), "NonConstantValueInner::Integer payload type")
    ty = m.group(1)
    payload_ty = ty
    fn = re.sub(r"\s+", " ", re.sub(r"//[^\n]*", "", extract_fn(read_repo(F_PARSE), "parse_non_constant_value")))
    i = fn.find("IsographLangTokenKind::IntegerLiteral")
    if i < 0:
        raise Inconclusive("encoding not regenerable: no IntegerLiteral alternative in parse_non_constant_value")
    j = fn.find("to_control_flow", i)
    site = fn[i:j if j > 0 else len(fn)]
    INT_TY = r"(i8|i16|i32|i64|i128|u8|u16|u32|u64|u128)"
    parses = list(re.finditer(r"number\.parse(?:::<%s>)?\(\)" % INT_TY, site))
    if len(parses) != 1:
        raise Inconclusive("encoding not regenerable: %d conversions of the literal text in the integer alternative" % len(parses))
    pm = parses[0]
    parse_ty = pm.group(1) or ty
    after, before = site[pm.end():], site[:pm.start()]
    m_unwrap = re.match(r" ?\.(expect\( ?\"[^\"]*\",? ?\)|unwrap\(\))", after)
    if m_unwrap:
        mode = "panic-on-error"
        after_rest = after[m_unwrap.end():]
    elif before.endswith("match ") and re.match(r" \{ Ok\(\w+\) => .*?Err\(_\) => Diagnostic::new\(", after):
        mode = "diagnostic-on-error"
        after_rest = after
    elif re.match(r" ?\.map_err\(\|_\w*\| Diagnostic::new\(.*?\)\)\?", after):
        mode = "diagnostic-on-error"
        after_rest = after
    else:
        raise Inconclusive("encoding not regenerable: the integer conversion has an unrecognised shape: " + site[:300])
    # no other panic source may hide in the alternative
    extra = re.findall(r"\.unwrap\(\)|\.expect\(|panic!|unreachable!|todo!|unimplemented!|\w\[[^\]]*\]", before + after_rest)
    if extra:
        raise Inconclusive("encoding not regenerable: further potential panic sites in the integer alternative: %r" % extra[:3])
    if parse_ty != ty:
        # a narrowing step to the payload type must follow, with its failure handled
        if not re.search(r"match %s::try_from\(\w+\) \{ Ok\(\w+\) => NonConstantValue::Integer\(\w+\)\.wrap_ok\(\), Err\(_\) => Diagnostic::new\(" % ty, after_rest):
            raise Inconclusive("encoding not regenerable: the literal is parsed as %s but no handled narrowing to %s is recognised" % (parse_ty, ty))
    ty = parse_ty
    bits = int(ty[1:])
    lo, hi = (-(2 ** (bits - 1)), 2 ** (bits - 1) - 1) if ty[0] == "i" else (0, 2 ** bits - 1)
    return dict(int_regex=int_re, target_type=ty, payload_type=payload_ty, lo=lo, hi=hi, mode=mode)


def literal_text(lit):
    return "field Query.foo {\n bar(a: %s),\n}" % lit


def native_parse(binary, lits):
    """returns list of 'ok' | 'err' | 'panic' for `field Query.foo { bar(a: <lit>), }` through the real parse_iso_literal"""
    out = []
    for lit in lits:
        p = subprocess.run([binary, PLUGIN_RE], input=literal_text(lit).encode().hex() + "\n", capture_output=True, text=True, timeout=60)
        if p.returncode != 0 or "panicked" in p.stderr:
            out.append("panic")
        elif p.stdout.startswith("C:ERR"):
            out.append("err")
        else:
            out.append("ok")
    return out


def main():
    t0 = time.time()
    T_ = tier()
    B = {"maxlen": 45} if T_ == "quick" else {"maxlen": 90}
    violations, known_lines, infra, queries, samples = [], [], [], [], []
    n_valid = 0
    X = None
    os.makedirs(os.path.join(REPLAYS, PROP), exist_ok=True)
    try:
        binary = build_native("header_driver")
        # ---- stage 0 (not solver-decided; a guard that does not depend on the extractor): candidate number spellings through the real parser
        BATTERY = ["0", "-0", "7", "-5", "+1", "+0", "-", "+", "1_000", "1_", "_1", "1__0", "-1_0", "0x10", "0xFF", "0x", "0X1f", "0b1", "0o7", "007", "00", "-007", "1e3", "1.5", "1.", ".5",
                   "9" * 19, "9" * 20, "9" * 39, "9" * 40, "9" * 80, "-" + "9" * 80, str(2 ** 63), str(-2 ** 63 - 1), str(-2 ** 63), str(2 ** 64), str(2 ** 127), str(2 ** 128), str(-2 ** 127 - 1),
                   "1_000_000_000_000_000_000_000", "+9223372036854775808", "+" + "9" * 40, "0x7fffffffffffffff", "0xffffffffffffffffff", "0x_", "1_" * 30 + "1", "-+1", "+-1", "--1", "1-", "1+"]
        binary_dev = build_native("header_driver", profile="dev")       # overflow checks and debug assertions on, like `cargo test`
        res_rel, res_dev = native_parse(binary, BATTERY), native_parse(binary_dev, BATTERY)
        for lit, res, rdev in zip(BATTERY, res_rel, res_dev):
            if res != "panic" and rdev == "panic":
                res, binary_used = "panic", binary_dev
            else:
                binary_used = binary
            if res == "panic":
                rp = os.path.join(REPLAYS, PROP, "number_battery")
                os.makedirs(rp, exist_ok=True)
                with open(os.path.join(rp, "input.hex"), "w") as f:
                    f.write(literal_text(lit).encode().hex() + "\n")
                with open(os.path.join(rp, "REPLAY.md"), "w") as f:
                    f.write("Property C07 (native guard): parse_iso_literal panics on the literal\n%s\nRun: bash %s/replay.sh (exit 1 = the parser panics)\n" % (literal_text(lit), rp))
                with open(os.path.join(rp, "replay.sh"), "w") as f:
                    f.write("#!/bin/bash\n%s '%s' < %s/input.hex && exit 0 || exit 1\n" % (binary_used, PLUGIN_RE.replace("'", "'\\''"), rp))
                violations.append(("native guard: parse_iso_literal panics on `bar(a: %s)`%s" % (lit, "" if binary_used == binary else " in the dev profile (overflow checks on), not in release"), rp))
                samples.append({"literal": lit, "native": res, "stage": "number battery"})
                break
        samples.append({"native_guard_number_spellings": len(BATTERY)})
        X = extract()
        S = z3.StringVal
        digits = z3.Union(z3.Range("0", "0"), z3.Concat(z3.Range("1", "9"), z3.Star(z3.Range("0", "9"))))
        lit_re = z3.Concat(z3.Option(z3.Range("-", "-")), digits)

        def value_of(s):
            neg = z3.PrefixOf(S("-"), s)
            mag = z3.StrToInt(z3.If(neg, z3.SubString(s, 1, z3.Length(s) - 1), s))
            return z3.If(neg, -mag, mag)

        # ---- translator validation: the encoding's verdict (in range / out of range) vs the real parser on boundary literals
        pb = int(X["payload_type"][1:])
        plo, phi = (-(2 ** (pb - 1)), 2 ** (pb - 1) - 1) if X["payload_type"][0] == "i" else (0, 2 ** pb - 1)
        probes = sorted(set(["0", "-0", "7", "-5", str(X["hi"]), str(X["lo"]), str(X["hi"] - 1), str(X["lo"] + 1), str(phi), str(plo), str(phi - 1), str(plo + 1)]))
        nat = native_parse(binary, probes)
        for pr, r in zip(probes, nat):
            q = Query("C07_validate", simple=True)
            s = z3.String("s")
            q.add(s == S(pr), z3.InRe(s, lit_re))
            q.add(z3.Or(value_of(s) < X["lo"], value_of(s) > X["hi"]))
            want_ok = plo <= int(pr) <= phi       # inside the payload type the literal must parse; inside the conversion type it must at least not panic
            if q.check(cross_check=False) != "unsat" or r == "panic" or (want_ok and r != "ok"):
                raise Inconclusive("translator validation failed on %r: encoding in-range verdict or real parser (%s) disagree" % (pr, r))
            n_valid += 1
        samples.append({"translator_validation": probes})

        # the literal as explicit decimal digits (linear integer arithmetic; str.to_int over 40+ characters does not terminate in z3):
        # one query per literal length, every digit and the sign symbolic, shape constrained by the lexer's regex -?(0|[1-9][0-9]*)
        r, lit = "unsat", None
        for L in range(1, B["maxlen"] + 1):
            q = Query("C07_integer_literal_panics_len%d" % L, solver_timeout_s=120, simple=True)
            neg = z3.Bool("neg")
            ds = [z3.Int("d%d" % i) for i in range(L)]
            for d in ds:
                q.add(d >= 0, d <= 9)
            if L > 1:
                q.add(ds[0] >= 1)                                           # no leading zero
            mag = z3.Sum([ds[i] * (10 ** (L - 1 - i)) for i in range(L)]) if L > 1 else ds[0]
            val = z3.If(neg, -mag, mag)
            q.add(z3.Or(val < X["lo"], val > X["hi"]))                       # the conversion fails
            q.add(z3.BoolVal(X["mode"] == "panic-on-error"))                # ... and the failure is turned into a panic
            rr = q.check(cross_check=(L in (1, 19, 20, 39, 40)), cross_timeout_s=60)
            queries.append(q.summary())
            if rr == "sat":
                m = q.model()
                lit = ("-" if z3.is_true(m.eval(neg, model_completion=True)) else "") + "".join(str(m.eval(d, model_completion=True).as_long()) for d in ds)
                r = "sat"
                break
            if rr != "unsat":
                raise Inconclusive("solver answered %s for literal length %d" % (rr, L))
        log("  integer literal that panics the conversion: %s (mode %s, conversion type %s, payload %s, %d length queries)" % (r, X["mode"], X["target_type"], X["payload_type"], len(queries)))
        if r == "sat":
            res = native_parse(binary, [lit])[0]
            samples.append({"literal": lit, "native": res})
            if res == "panic":
                rp = os.path.join(REPLAYS, PROP, "integer_literal")
                os.makedirs(rp, exist_ok=True)
                with open(os.path.join(rp, "input.hex"), "w") as f:
                    f.write(literal_text(lit).encode().hex() + "\n")
                with open(os.path.join(rp, "REPLAY.md"), "w") as f:
                    f.write("Property C07: parse_iso_literal panics on the literal\n%s\nRun: bash %s/replay.sh (exit 1 = the parser panics)\n" % (literal_text(lit), rp))
                with open(os.path.join(rp, "replay.sh"), "w") as f:
                    f.write("#!/bin/bash\n%s '%s' < %s/input.hex && exit 0 || exit 1\n" % (binary, PLUGIN_RE.replace("'", "'\\''"), rp))
                violations.append(("parse_iso_literal panics on `bar(a: %s)`: the %s conversion fails and the error is unwrapped" % (lit, X["target_type"]), rp))
            else:
                infra.append("model %r does not reproduce natively (parser result: %s)" % (lit, res))
        else:
            # the handled path must really be handled: out-of-range literals give a diagnostic natively
            over = [str(X["hi"] + 1), str(X["lo"] - 1), "9" * 30, str(2 ** 63), str(-2 ** 63 - 1), str(2 ** 64), str(2 ** 127), str(2 ** 128), "-" + "9" * 60]
            res = native_parse(binary, over)
            samples.append({"out_of_range_literals": over, "native": res})
            if "panic" in res:
                infra.append("the conversion is classified as handled but the real parser panics on %r" % over[res.index("panic")])
            n_valid += len(over)
    except Inconclusive as e:
        infra.append(str(e))

    n_unsat = len([q for q in queries if q["result"] == "unsat"])
    cov = {
        "explanation": "One clause of C07 (no panic on extreme numbers): the lexer's integer regex, the conversion expression with its error handling and the payload type are "
                       "re-read from source; z3 decides whether an accepted literal can fail the conversion while the failure is unwrapped; the model is replayed through the real parser.",
        "functions_encoded": ["IsographLangTokenKind::IntegerLiteral regex", "parse_non_constant_value (integer alternative)", "NonConstantValueInner::Integer payload type"],
        "extracted": X, "source_fingerprint": repo_fingerprint([F_TOK, F_PARSE, F_ARG]),
        "bounds": dict(B, literals="every literal of the lexer's integer language with at most maxlen digits, either sign"),
        "queries": queries[:3] + queries[-3:], "queries_discharged": len(queries), "solver_time_s": round(sum(q["solver_s"] for q in queries), 2),
        "translator_validation_inputs_agreeing": n_valid,
        "evaluations": len(queries) + n_valid, "distinct_nontrivial": max(2, n_unsat + len(samples)),
        "rule": "evaluations = SMT queries + boundary literals on which the encoding and the real parser agree; distinct_nontrivial = unsat queries + replayed literals (boundary set has 8 distinct literals)",
        "samples": samples[:6] or [{"note": "none"}], "exhaustive": False, "known_findings_reported": known_lines,
    }
    assumptions = [
        "PARTIAL: only the integer-literal conversion; totality and span well-formedness of the whole parser need symbolic execution of the logos lexer and the recursive-descent parser over symbolic text, "
        "which CBMC does not finish here (DESIGN.md M7), and are outside the claim",
        "the other potential panic sites of the parser are slices guarded by the token shapes that precede them (string literals of at least two quotes, block strings of at least six) and are not decided here",
    ]
    write_evidence(PROP, "other", cov, assumptions, time.time() - t0, len(violations))
    finish(PROP, violations, known_lines, infra)


if __name__ == "__main__":
    main()
