"""C07 (one clause) The iso literal parser never panics on an integer literal.

C07 demands that parsing terminates without panicking for every input and names "extreme numbers". The only
input-dependent panic site of the parser that is not a slice is the integer conversion in
`parse_non_constant_value`. Engine S: the lexer's `IntegerLiteral` regex (token_kind.rs), the conversion
expression and its error handling (parse_iso_literal.rs) and the target type (`NonConstantValueInner::Integer`)
are re-read from source; z3 decides whether a literal the lexer accepts can make the conversion fail while the
failure is turned into a panic. Models are replayed through the real `parse_iso_literal` (native/header_driver)."""
import os, re, json, time, subprocess
import z3
from common import (tier, log, write_evidence, known_findings, finish, repo_fingerprint, REPLAYS)
from smt import Query, Inconclusive, build_native, read_repo, extract_fn

PROP = "C07"
F_TOK = "crates/isograph_lang_parser/src/token_kind.rs"
F_PARSE = "crates/isograph_lang_parser/src/parse_iso_literal.rs"
F_ARG = "crates/isograph_lang_types/src/declarations/selection_argument.rs"
PLUGIN_RE = r"\s*(entrypoint|field|pointer)\s*([^\.\s]+)\s*\.\s*([^\s\(\{@\x22]+)"


def need(m, what):
    if not m:
        raise Inconclusive("encoding not regenerable: " + what)
    return m


def extract():
    tok = read_repo(F_TOK)
    m = need(re.search(r'#\[regex\("((?:[^"\\]|\\.)*)"\)\]\s*IntegerLiteral,', tok), "IntegerLiteral token definition")
    int_re = m.group(1)
    if int_re != "-?(0|[1-9][0-9]*)":
        raise Inconclusive("encoding not regenerable: IntegerLiteral regex %r is not the supported -?(0|[1-9][0-9]*)" % int_re)
    arg = read_repo(F_ARG)
    m = need(re.search(r"pub enum NonConstantValueInner<TLocation> \{[^}]*?Integer\((i8|i16|i32|i64|i128|u8|u16|u32|u64|u128)\)", arg, re.S), "NonConstantValueInner::Integer payload type")
    ty = m.group(1)
    fn = re.sub(r"\s+", " ", re.sub(r"//[^\n]*", "", extract_fn(read_repo(F_PARSE), "parse_non_constant_value")))
    i = fn.find("IsographLangTokenKind::IntegerLiteral")
    if i < 0:
        raise Inconclusive("encoding not regenerable: no IntegerLiteral alternative in parse_non_constant_value")
    j = fn.find("to_control_flow", i)
    site = fn[i:j if j > 0 else len(fn)]
    if re.search(r"number\.parse\(\)\.(expect\(\"[^\"]*\"\)|unwrap\(\))", site) or re.search(r"\.parse::<\w+>\(\)\.(expect\(|unwrap\(\))", site):
        mode = "panic-on-error"
    elif re.search(r"match number\.parse::<%s>\(\) \{ Ok\(\w+\) => NonConstantValue::Integer\(\w+\)\.wrap_ok\(\), Err\(_\) => Diagnostic::new\(" % ty, site):
        mode = "diagnostic-on-error"
    else:
        raise Inconclusive("encoding not regenerable: the integer conversion has an unrecognised shape: " + site[:300])
    bits = int(ty[1:])
    lo, hi = (-(2 ** (bits - 1)), 2 ** (bits - 1) - 1) if ty[0] == "i" else (0, 2 ** bits - 1)
    return dict(int_regex=int_re, target_type=ty, lo=lo, hi=hi, mode=mode)


def literal_text(lit):
    return "field Query.foo {\n bar(a: %s),\n}" % lit


def native_parse(binary, lits):
    """returns list of 'ok' | 'err' | 'panic' for `field Query.foo { bar(a: <lit>), }` through the real parse_iso_literal"""
    out = []
    for lit in lits:
        p = subprocess.run([binary, PLUGIN_RE], input=literal_text(lit).encode().hex() + "\n", capture_output=True, text=True, timeout=60)
        if p.returncode != 0 or "panicked" in p.stderr:
            out.append("panic")
        elif p.stdout.startswith("C:ERR"):
            out.append("err")
        else:
            out.append("ok")
    return out


def main():
    t0 = time.time()
    T_ = tier()
    B = {"maxlen": 21} if T_ == "quick" else {"maxlen": 40}
    violations, known_lines, infra, queries, samples = [], [], [], [], []
    n_valid = 0
    X = None
    os.makedirs(os.path.join(REPLAYS, PROP), exist_ok=True)
    try:
        binary = build_native("header_driver")
        X = extract()
        S = z3.StringVal
        digits = z3.Union(z3.Range("0", "0"), z3.Concat(z3.Range("1", "9"), z3.Star(z3.Range("0", "9"))))
        lit_re = z3.Concat(z3.Option(z3.Range("-", "-")), digits)

        def value_of(s):
            neg = z3.PrefixOf(S("-"), s)
            mag = z3.StrToInt(z3.If(neg, z3.SubString(s, 1, z3.Length(s) - 1), s))
            return z3.If(neg, -mag, mag)

        # ---- translator validation: the encoding's verdict (in range / out of range) vs the real parser on boundary literals
        probes = ["0", "-0", "7", "-5", str(X["hi"]), str(X["lo"]), str(X["hi"] - 1), str(X["lo"] + 1)]
        nat = native_parse(binary, probes)
        for pr, r in zip(probes, nat):
            q = Query("C07_validate", simple=True)
            s = z3.String("s")
            q.add(s == S(pr), z3.InRe(s, lit_re))
            q.add(z3.Or(value_of(s) < X["lo"], value_of(s) > X["hi"]))
            if q.check(cross_check=False) != "unsat" or r != "ok":
                raise Inconclusive("translator validation failed on %r: encoding in-range verdict or real parser (%s) disagree" % (pr, r))
            n_valid += 1
        samples.append({"translator_validation": probes})

        q = Query("C07_integer_literal_panics", solver_timeout_s=120, simple=True)
        s = z3.String("s")
        q.add(z3.InRe(s, lit_re), z3.Length(s) <= B["maxlen"])
        q.add(z3.Or(value_of(s) < X["lo"], value_of(s) > X["hi"]))      # the conversion to the payload type fails
        q.add(z3.BoolVal(X["mode"] == "panic-on-error"))                # ... and the failure is turned into a panic
        r = q.check(cross_check=True, cross_timeout_s=60)
        queries.append(q.summary())
        log("  integer literal that panics the conversion: %s (mode %s, target %s)" % (r, X["mode"], X["target_type"]))
        if r == "sat":
            lit = q.model().eval(s, model_completion=True).as_string()
            res = native_parse(binary, [lit])[0]
            samples.append({"literal": lit, "native": res})
            if res == "panic":
                rp = os.path.join(REPLAYS, PROP, "integer_literal")
                os.makedirs(rp, exist_ok=True)
                with open(os.path.join(rp, "input.hex"), "w") as f:
                    f.write(literal_text(lit).encode().hex() + "\n")
                with open(os.path.join(rp, "REPLAY.md"), "w") as f:
                    f.write("Property C07: parse_iso_literal panics on the literal\n%s\nRun: bash %s/replay.sh (exit 1 = the parser panics)\n" % (literal_text(lit), rp))
                with open(os.path.join(rp, "replay.sh"), "w") as f:
                    f.write("#!/bin/bash\n%s '%s' < %s/input.hex && exit 0 || exit 1\n" % (binary, PLUGIN_RE.replace("'", "'\\''"), rp))
                violations.append(("parse_iso_literal panics on `bar(a: %s)`: the %s conversion fails and the error is unwrapped" % (lit, X["target_type"]), rp))
            else:
                infra.append("model %r does not reproduce natively (parser result: %s)" % (lit, res))
        else:
            # the handled path must really be handled: out-of-range literals give a diagnostic natively
            over = [str(X["hi"] + 1), str(X["lo"] - 1), "9" * 30]
            res = native_parse(binary, over)
            samples.append({"out_of_range_literals": over, "native": res})
            if "panic" in res:
                infra.append("the conversion is classified as handled but the real parser panics on %r" % over[res.index("panic")])
            n_valid += len(over)
    except Inconclusive as e:
        infra.append(str(e))

    n_unsat = len([q for q in queries if q["result"] == "unsat"])
    cov = {
        "explanation": "One clause of C07 (no panic on extreme numbers): the lexer's integer regex, the conversion expression with its error handling and the payload type are "
                       "re-read from source; z3 decides whether an accepted literal can fail the conversion while the failure is unwrapped; the model is replayed through the real parser.",
        "functions_encoded": ["IsographLangTokenKind::IntegerLiteral regex", "parse_non_constant_value (integer alternative)", "NonConstantValueInner::Integer payload type"],
        "extracted": X, "source_fingerprint": repo_fingerprint([F_TOK, F_PARSE, F_ARG]),
        "bounds": dict(B, literals="every literal of the lexer's integer language up to maxlen characters"),
        "queries": queries, "queries_discharged": len(queries), "solver_time_s": round(sum(q["solver_s"] for q in queries), 2),
        "translator_validation_inputs_agreeing": n_valid,
        "evaluations": len(queries) + n_valid, "distinct_nontrivial": max(2, n_unsat + len(samples)),
        "rule": "evaluations = SMT queries + boundary literals on which the encoding and the real parser agree; distinct_nontrivial = unsat queries + replayed literals (boundary set has 8 distinct literals)",
        "samples": samples[:6] or [{"note": "none"}], "exhaustive": False, "known_findings_reported": known_lines,
    }
    assumptions = [
        "PARTIAL: only the integer-literal conversion; totality and span well-formedness of the whole parser need symbolic execution of the logos lexer and the recursive-descent parser over symbolic text, "
        "which CBMC does not finish here (DESIGN.md M7), and are outside the claim",
        "the other potential panic sites of the parser are slices guarded by the token shapes that precede them (string literals of at least two quotes, block strings of at least six) and are not decided here",
    ]
    write_evidence(PROP, "other", cov, assumptions, time.time() - t0, len(violations))
    finish(PROP, violations, known_lines, infra)


if __name__ == "__main__":
    main()
