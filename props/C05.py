"""C05 Interning is a faithful bijection (the part CBMC can decide: the SmallBytes value representation)."""
from kprop import run_k_property

SPECS = [
    dict(name="c05_small_bytes_roundtrip", batch="sb", tiers=("quick", "thorough"), bound="every byte string of length <= 24 (inline <= 22, boxed 23..24), unwind 42",
         what="SmallBytes::from(&[u8]): deref round trip, len, representation switch at 22/23, Hash stream equals the slice's, From<Vec<u8>> equal", timeout=900),
    dict(name="c05_small_bytes_len_1100", batch="sb", tiers=("quick", "thorough"), bound="every length <= 1100 (content all zero: copies are memcpy of a symbolic size)",
         what="SmallBytes::from(&[u8]) stores a value of the input's length, with the right representation (length arithmetic beyond the symbolic-content bound)", timeout=900),
    dict(name="c05_small_bytes_eq", batch="sb", tiers=("quick", "thorough"), bound="every pair of byte strings of length <= 4",
         what="SmallBytes equality is slice equality and equal values hash alike", timeout=900),
]
FUNCTIONS = ["intern::small_bytes::SmallBytes::{from(&[u8]), from(Vec<u8>), deref, len, is_empty, eq, hash}", "make_small"]
FILES = ["relay-crates/intern/src/small_bytes.rs"]
ASSUMPTIONS = [
    "only the value representation used by string interning (SmallBytes) is decided; the intern tables themselves (InternTable::intern, ShardedSet, BytesId/StringId ordering) were attempted and are out of reach: with a symbolic value the shard index is a symbolic index into 64 lock-protected tables, and even with solver-chosen concrete candidates CBMC's symbolic execution did not finish in 45 minutes (harnesses kept in kani/k_intern/src/intern_seq.rs, not registered)",
    "thread schedules of interning and the serde back-reference round trip are outside the claim (the arena's schedules are property C06)",
    "Hash agreement is checked as equality of the byte streams fed to the Hasher (recording hasher), not for a particular hash function",
]

def main():
    run_k_property("C05", "k_intern", SPECS, functions=FUNCTIONS, files=FILES, assumptions=ASSUMPTIONS, level="other",
                   explanation="CBMC decides, for every byte string up to 24 bytes, that SmallBytes (the stored form of every interned string) round-trips, switches representation at the documented length, and that its Eq/Hash agree with the byte slice it borrows as - the contract the intern table's lookup-by-slice relies on.")

if __name__ == "__main__":
    main()
