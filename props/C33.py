"""C33 Signed generated files verify, and any edit breaks the signature.

Engine S: the plumbing of relay-crates/signedsource/src/lib.rs (sign / is_valid_signature) is
re-read from the source on every run, translated into an SMT encoding over byte texts of bounded
length with md5 as an uninterpreted function, and two queries are discharged:
  Q1  exists a text containing the signing token whose signed form does not verify
  Q2  exists a signed file and a single-byte edit outside the signature after which it still verifies
`sat` = counterexample (replayed natively with the real crate before it is reported)."""
import re, sys, time
import z3
from common import (tier, seed, log, write_evidence, known_findings, finish, repo_fingerprint, REPLAYS)
import os
from smt import Query, Inconclusive, build_native, run_native, read_repo, extract_fn, rust_str_literal

PROP = "C33"
SRC = "relay-crates/signedsource/src/lib.rs"


# ---------------------------------------------------------------- extraction

def parse_regex_fixed(pat):
    """Flatten a regex made of literals, \\xNN, (?:..), (..), [classes]{n} into a list of byte sets
    (fixed length). Returns (classes, groups) where groups = list of (start, end) for capturing groups.
    Anything else -> not regenerable."""
    classes, groups, stack = [], [], []
    i = 0
    def cls_of(ch):
        return frozenset([ord(ch)])
    while i < len(pat):
        c = pat[i]
        if c == "(":
            if pat[i:i + 3] == "(?:":
                stack.append(None)
                i += 3
            else:
                stack.append(len(classes))
                i += 1
            continue
        if c == ")":
            st = stack.pop()
            if st is not None:
                groups.append((st, len(classes)))
            i += 1
            continue
        if c == "[":
            e = pat.index("]", i)
            body = pat[i + 1:e]
            if body.startswith("^"):
                raise Inconclusive("encoding not regenerable: negated class in regex")
            s = set()
            j = 0
            while j < len(body):
                if j + 2 < len(body) and body[j + 1] == "-":
                    s.update(range(ord(body[j]), ord(body[j + 2]) + 1))
                    j += 3
                else:
                    s.add(ord(body[j]))
                    j += 1
            i = e + 1
            rep = 1
            m = re.match(r"\{(\d+)\}", pat[i:])
            if m:
                rep = int(m.group(1))
                i += m.end()
            classes.extend([frozenset(s)] * rep)
            continue
        if c in "*+?|.^${}":
            raise Inconclusive("encoding not regenerable: regex operator %r outside the supported fixed-length subset" % c)
        if c == "\\":
            n = pat[i + 1]
            if n == "x":
                classes.append(frozenset([int(pat[i + 2:i + 4], 16)]))
                i += 4
                continue
            classes.append(cls_of(n))
            i += 2
            continue
        classes.append(cls_of(c))
        i += 1
    if stack:
        raise Inconclusive("encoding not regenerable: unbalanced group in regex")
    return classes, groups


def extract():
    src = read_repo(SRC)
    m = re.search(r"static ref RE: Regex = Regex::new\(\"((?:[^\"\\]|\\.)*)\"\)", src)
    if not m:
        raise Inconclusive("encoding not regenerable: RE literal not found")
    regex_text = rust_str_literal(m.group(1))
    m = re.search(r"pub const NEWTOKEN: &str = \"((?:[^\"\\]|\\.)*)\";", src)
    if not m:
        raise Inconclusive("encoding not regenerable: NEWTOKEN not found")
    newtoken = rust_str_literal(m.group(1))
    m = re.search(r"pub const SIGNING_TOKEN: &str =\s*\"((?:[^\"\\]|\\.)*)\";", src)
    if not m:
        raise Inconclusive("encoding not regenerable: SIGNING_TOKEN not found")
    signing_token = rust_str_literal(m.group(1))

    sign = extract_fn(src, "sign")
    m = re.search(r"data\s*\.\s*(replace|replacen)\(\s*NEWTOKEN\s*,\s*&format!\(\"((?:[^\"\\]|\\.)*)\"\s*,\s*hash\(data\)\)\s*(?:,\s*(\d+)\s*)?\)", sign)
    if not m:
        raise Inconclusive("encoding not regenerable: sign() is not `data.replace[n](NEWTOKEN, &format!(T, hash(data)))`")
    sign_all = m.group(1) == "replace"
    sign_count = None if sign_all else int(m.group(3) or 1)
    tmpl = rust_str_literal(m.group(2))
    if tmpl.count("{}") != 1:
        raise Inconclusive("encoding not regenerable: signature template has not exactly one {}")
    tpre, tpost = tmpl.split("{}")

    tsf = extract_fn(src, "try_sign_file")
    if not re.search(r"if\s+data\.contains\(NEWTOKEN\)\s*\{\s*Some\(sign\(data\)\)\s*\}\s*else\s*\{\s*None\s*\}", tsf):
        raise Inconclusive("encoding not regenerable: try_sign_file shape changed")

    ivs = extract_fn(src, "is_valid_signature")
    body = re.sub(r"\s+", " ", re.sub(r"//[^\n]*", "", ivs))
    m = re.search(r"if let Some\(mat\) = RE\.find\(data\) \{ let actual = &data\[mat\.start\(\) \+ (\d+)\.\.mat\.end\(\) - (\d+)\]; "
                  r"let unsigned = (.*?); return hash\(&unsigned\) == actual; \} false", body)
    if not m:
        raise Inconclusive("encoding not regenerable: is_valid_signature shape changed: " + body[:300])
    off_a, off_b, unsign = int(m.group(1)), int(m.group(2)), m.group(3).strip()
    mm = re.fullmatch(r"RE\.(replace|replace_all)\(data, SIGNING_TOKEN\)", unsign)
    inv = re.fullmatch(r"data\.(replace|replacen)\(&format!\(\"((?:[^\"\\]|\\.)*)\", actual\), NEWTOKEN(?:, (\d+))?\)", unsign)
    if mm:
        verify = {"mode": "regex", "all": mm.group(1) == "replace_all"}
    elif inv:
        t2 = rust_str_literal(inv.group(2))
        if t2.count("{}") != 1:
            raise Inconclusive("encoding not regenerable: un-sign template has not exactly one {}")
        if inv.group(1) == "replacen" and inv.group(3) != "1":
            raise Inconclusive("encoding not regenerable: replacen with count != 1")
        verify = {"mode": "inverse", "all": inv.group(1) == "replace", "pre": t2.split("{}")[0], "post": t2.split("{}")[1]}
    else:
        raise Inconclusive("encoding not regenerable: unsupported un-signing expression: " + unsign)

    h = re.sub(r"\s+", " ", re.sub(r"//[^\n]*", "", extract_fn(src, "hash")))
    if not re.fullmatch(r"fn hash\(data: &str\) -> String \{ let mut md5 = Md5::new\(\); md5\.update\(data\); hex::encode\(md5\.finalize\(\)\) \}", h):
        raise Inconclusive("encoding not regenerable: hash() is not exactly hex(md5(data)) over the whole text: " + h[:200])

    classes, groups = parse_regex_fixed(regex_text)
    return dict(regex_text=regex_text, classes=classes, groups=groups, newtoken=newtoken, signing_token=signing_token,
                sign_all=sign_all, sign_count=sign_count, tpre=tpre, tpost=tpost, off_a=off_a, off_b=off_b,
                verify=verify)


# ---------------------------------------------------------------- the encoding, generic over a value algebra

class Conc:
    """Concrete algebra (python ints / bools): used to validate the translation against the real crate."""
    def eq(self, a, b): return a == b
    def and_(self, *xs): return all(xs)
    def or_(self, *xs): return any(xs)
    def not_(self, a): return not a
    def ite(self, c, a, b): return a if c else b
    def const(self, v): return v
    def inset(self, a, s): return a in s
    true, false = True, False


class Sym:
    def eq(self, a, b): return a == b
    def and_(self, *xs): return z3.And(*xs) if xs else z3.BoolVal(True)
    def or_(self, *xs): return z3.Or(*xs) if xs else z3.BoolVal(False)
    def not_(self, a): return z3.Not(a)
    def ite(self, c, a, b): return z3.If(c, a, b)
    def const(self, v): return z3.BitVecVal(v, 8)
    def inset(self, a, s):
        # s: frozenset of byte values -> union of ranges
        vals = sorted(s)
        rs, st, pv = [], vals[0], vals[0]
        for v in vals[1:]:
            if v != pv + 1:
                rs.append((st, pv)); st = v
            pv = v
        rs.append((st, pv))
        return z3.Or(*[z3.And(z3.UGE(a, z3.BitVecVal(lo, 8)), z3.ULE(a, z3.BitVecVal(hi, 8))) if lo != hi else a == z3.BitVecVal(lo, 8) for lo, hi in rs])
    true, false = z3.BoolVal(True), z3.BoolVal(False)


def occ_at(A, text, L, i, lit):
    """literal `lit` occurs in text[0..L) at i"""
    if i + len(lit) > L:
        return A.false
    return A.and_(*[A.eq(text[i + k], A.const(ord(lit[k]))) for k in range(len(lit))])


def match_at(A, text, L, i, classes):
    if i + len(classes) > L:
        return A.false
    return A.and_(*[A.inset(text[i + k], classes[k]) if len(classes[k]) > 1 else A.eq(text[i + k], A.const(next(iter(classes[k]))))
                    for k in range(len(classes))])


def leftmost_nonoverlapping(A, hits, n):
    """Given hit[i] booleans for a pattern of length n, the matches a leftmost-first, non-overlapping
    scan (str::replace / Regex::replace_all / find_iter) takes: take[i] = hit[i] and no taken match covers i."""
    take = []
    for i, h in enumerate(hits):
        blockers = [take[j] for j in range(max(0, i - n + 1), i)]
        take.append(A.and_(h, *[A.not_(b) for b in blockers]) if blockers else h)
    return take


def first_only(A, hits):
    out = []
    for i, h in enumerate(hits):
        out.append(A.and_(h, *[A.not_(x) for x in hits[:i]]) if i else h)
    return out


def substitute(A, text, L, take, n, rep):
    """positions covered by a taken match at i (length n) get rep[pos - i]; rep has length n (length preserving)."""
    out = []
    for j in range(L):
        v = text[j]
        for i in range(max(0, j - n + 1), min(j, L - n) + 1):
            v = A.ite(take[i], rep[j - i], v)
        out.append(v)
    return out


def encode_sign(A, X, D, L, Hd):
    """sign(data): returns (signed text, list of take booleans for NEWTOKEN occurrences)"""
    tok = X["newtoken"]
    n = len(tok)
    rep = [A.const(ord(c)) for c in X["tpre"]] + list(Hd) + [A.const(ord(c)) for c in X["tpost"]]
    assert len(rep) == n
    hits = [occ_at(A, D, L, i, tok) for i in range(L - n + 1)] if L >= n else []
    take = leftmost_nonoverlapping(A, hits, n)
    if not X["sign_all"]:
        # replacen(.., k): only the first k taken matches; only k == 1 is supported
        if X["sign_count"] != 1:
            raise Inconclusive("encoding not regenerable: replacen with count != 1")
        take = first_only(A, take)
    return substitute(A, D, L, take, n, rep), take


def encode_verify(A, X, T, L):
    """is_valid_signature(T): returns (found, actual[32], unsigned text U)"""
    cl = X["classes"]
    n = len(cl)
    sig = X["signing_token"]
    assert len(sig) == n
    hits = [match_at(A, T, L, i, cl) for i in range(L - n + 1)] if L >= n else []
    first = first_only(A, hits)
    found = A.or_(*hits) if hits else A.false
    a0, a1 = X["off_a"], n - X["off_b"]
    width = a1 - a0
    actual = []
    for k in range(width):
        v = A.const(0)
        for i in range(len(first)):
            v = A.ite(first[i], T[i + a0 + k], v)
        actual.append(v)
    V = X["verify"]
    if V["mode"] == "regex":
        rep = [A.const(ord(c)) for c in sig]
        take = leftmost_nonoverlapping(A, hits, n) if V["all"] else first
        U = substitute(A, T, L, take, n, rep)
    else:
        # data.replace(&format!(pre{actual}post), NEWTOKEN): the pattern is pre + actual + post
        tok = X["newtoken"]
        pre, post = V["pre"], V["post"]
        pl = len(pre) + width + len(post)
        if pl != len(tok):
            raise Inconclusive("encoding not regenerable: un-sign pattern and NEWTOKEN differ in length")
        def pat_at(i):
            if i + pl > L:
                return A.false
            cs = [A.eq(T[i + k], A.const(ord(pre[k]))) for k in range(len(pre))]
            cs += [A.eq(T[i + len(pre) + k], actual[k]) for k in range(width)]
            cs += [A.eq(T[i + len(pre) + width + k], A.const(ord(post[k]))) for k in range(len(post))]
            return A.and_(found, *cs)
        h2 = [pat_at(i) for i in range(L - pl + 1)] if L >= pl else []
        take = leftmost_nonoverlapping(A, h2, pl)
        if not V["all"]:
            take = first_only(A, take)
        U = substitute(A, T, L, take, pl, [A.const(ord(c)) for c in tok])
    return found, actual, U


def structural_checks(X):
    tok, sig, cl = X["newtoken"], X["signing_token"], X["classes"]
    rep_len = len(X["tpre"]) + 32 + len(X["tpost"])
    if rep_len != len(tok):
        raise Inconclusive("encoding not regenerable: signature (%d chars) and NEWTOKEN (%d chars) differ in length; the length-preserving encoding does not apply" % (rep_len, len(tok)))
    if len(sig) != len(cl):
        raise Inconclusive("encoding not regenerable: SIGNING_TOKEN and regex match differ in length")
    if X["off_a"] + 32 != len(cl) - X["off_b"]:
        raise Inconclusive("encoding not regenerable: the slice taken as signature is not 32 characters")
    # the slice must be where the regex has its hex class, and sign must put the hash there:
    # (not required for soundness of the encoding; recorded as a fact)
    for k in range(1, len(tok)):
        if tok[:k] == tok[-k:]:
            raise Inconclusive("encoding not regenerable: NEWTOKEN has a border of length %d (occurrences could overlap; the layout case split assumes they cannot)" % k)
    return {"token_len": len(tok), "match_len": len(cl), "slice": [X["off_a"], len(cl) - X["off_b"]], "token_border_free": True}


# ---------------------------------------------------------------- queries

PRINTABLE = frozenset(list(range(0x20, 0x7f)) + [0x0a])
HEX = frozenset(list(range(ord("0"), ord("9") + 1)) + list(range(ord("a"), ord("f") + 1)))


def sym_text(name, L):
    return [z3.BitVec("%s_%d" % (name, i), 8) for i in range(L)]


def all_eq(A, xs, ys):
    return A.and_(*[A.eq(a, b) for a, b in zip(xs, ys)])


def model_bytes(m, xs):
    return bytes([m.eval(x, model_completion=True).as_long() for x in xs])


def no_own_hash(A, q, D, L, Hd):
    """random-oracle assumption: a text does not contain its own md5 digest"""
    for i in range(L - 32 + 1):
        q.add(z3.Not(all_eq(A, D[i:i + 32], Hd)))


def token_layouts(A, X, D, L):
    """Exhaustive case split on where NEWTOKEN occurs in D: every non-empty set of occurrence
    positions (two occurrences are at least a token length apart because the token has no border,
    checked in structural_checks). Each case fixes the token characters and rules out the others."""
    tok = X["newtoken"]
    n = len(tok)
    pos = list(range(L - n + 1)) if L >= n else []
    hit = {i: occ_at(A, D, L, i, tok) for i in pos}
    sets = []
    def rec(start, chosen):
        if chosen:
            sets.append(list(chosen))
        for i in pos:
            if i >= start:
                rec(i + n, chosen + [i])
    rec(0, [])
    cases = []
    for P in sets:
        cs = []
        covered = set()
        for i in P:
            for k in range(n):
                cs.append(D[i + k] == z3.BitVecVal(ord(tok[k]), 8))
            covered.add(i)
        for i in pos:
            if i not in covered and all(abs(i - j) >= n for j in P):
                cs.append(z3.Not(hit[i]))
        cases.append(cs)
    return cases


def q1_signing_verifies(X, L):
    """sat <=> a text of length L containing SIGNING_TOKEN whose signed form is rejected."""
    A = Sym()
    q = Query("C33_Q1_len%d" % L)
    D = sym_text("d", L)
    Hd = sym_text("hd", 32)
    Hu = sym_text("hu", 32)
    for c in D:
        q.add(A.inset(c, PRINTABLE))
    for c in Hd + Hu:
        q.add(A.inset(c, HEX))
    sig = X["signing_token"]
    q.add(A.or_(*[occ_at(A, D, L, i, sig) for i in range(L - len(sig) + 1)]))      # precondition: contains the signing token
    no_own_hash(A, q, D, L, Hd)
    S, _ = encode_sign(A, X, D, L, Hd)
    found, actual, U = encode_verify(A, X, S, L)
    # md5 as an uninterpreted function: equal arguments give equal results (congruence);
    # different arguments give different results unless the solver is told otherwise (it is not)
    q.add(z3.Implies(all_eq(A, U, D), all_eq(A, Hu, Hd)))
    q.add(z3.Implies(z3.Not(all_eq(A, U, D)), z3.Not(all_eq(A, Hu, Hd))))
    # a stale signature's hex in the text is not the md5 of anything in this run (no accidental fixed points)
    valid = z3.And(found, all_eq(A, Hu, actual))
    stale = z3.Not(all_eq(A, actual, Hd))      # the verified slice is not the hash that sign() wrote
    q.add(z3.Implies(stale, z3.Not(all_eq(A, Hu, actual))))
    q.add(z3.Not(valid))
    q.layout_cases = token_layouts(A, X, D, L)
    return q, D


def q2_edit_breaks(X, L):
    """sat <=> a signed file (from a text without a pre-existing signature) and a single-byte edit outside
    the 32 signature characters such that the edited file still verifies."""
    A = Sym()
    q = Query("C33_Q2_len%d" % L)
    D = sym_text("d", L)
    Hd = sym_text("hd", 32)
    Hu = sym_text("hu", 32)
    for c in D:
        q.add(A.inset(c, PRINTABLE))
    for c in Hd + Hu:
        q.add(A.inset(c, HEX))
    sig = X["signing_token"]
    q.add(A.or_(*[occ_at(A, D, L, i, sig) for i in range(L - len(sig) + 1)]))
    cl = X["classes"]
    # assumption: the unsigned content carries no stale signature (stated in the evidence)
    for i in range(L - len(cl) + 1):
        q.add(z3.Not(match_at(A, D, L, i, cl)))
    no_own_hash(A, q, D, L, Hd)
    S, take = encode_sign(A, X, D, L, Hd)
    p = z3.Int("edit_pos")
    b = z3.BitVec("edit_byte", 8)
    q.add(p >= 0, p < L, A.inset(b, PRINTABLE))
    n = len(X["newtoken"])
    h0 = len(X["tpre"])
    S2 = []
    # "outside the signature": the signature is the 32-character slice that verification reads, i.e. the
    # slice of the first regex match of the (unedited) signed file. Other copies of the digest (further
    # tokens) are fair game for the edit.
    nm_ = len(cl)
    hitsS = [match_at(A, S, L, i, cl) for i in range(L - nm_ + 1)] if L >= nm_ else []
    firstS = first_only(A, hitsS)
    a0 = X["off_a"]
    for j in range(L):
        S2.append(z3.If(p == j, b, S[j]))
        q.add(z3.Implies(p == j, b != S[j]))
        for i in range(len(firstS)):
            if a0 <= j - i < a0 + 32:
                q.add(z3.Implies(z3.And(p == j, firstS[i]), z3.BoolVal(False)))
    found, actual, U = encode_verify(A, X, S2, L)
    # md5 uninterpreted + injective on the two texts involved
    q.add(z3.Implies(all_eq(A, U, D), all_eq(A, Hu, Hd)))
    q.add(z3.Implies(z3.Not(all_eq(A, U, D)), z3.Not(all_eq(A, Hu, Hd))))
    stale = z3.Not(all_eq(A, actual, Hd))
    q.add(z3.Implies(stale, z3.Not(all_eq(A, Hu, actual))))
    q.add(z3.And(found, all_eq(A, Hu, actual)))
    q.layout_cases = token_layouts(A, X, D, L)
    return q, (D, p, b, S)


# ---------------------------------------------------------------- translator validation (concrete algebra vs real crate)

def conc_eval(X, text):
    """Evaluate the encoding concretely with the real md5: returns (signed bytes or None, valid(signed), valid(text))."""
    import hashlib
    A = Conc()
    D = list(text)
    L = len(D)
    def H(bs): return [ord(c) for c in hashlib.md5(bytes(bs)).hexdigest()]
    def valid(T):
        found, actual, U = encode_verify(A, X, T, len(T))
        return bool(found) and H(U) == actual
    contains = any(occ_at(A, D, L, i, X["newtoken"]) for i in range(L))
    if not contains:
        return None, False, valid(D)
    S, _ = encode_sign(A, X, D, L, H(D))
    return bytes(S), valid(S), valid(D)


def validate_translation(X, binary):
    tok, sig = X["newtoken"], X["signing_token"]
    probes = [
        "# %s\ntest 1" % sig, "# %s\ntest 2" % sig,                      # repo tests test_sign_file
        "# @generated SignedSource<<eeeeeeeeeeeeeeeeeeeeeeeeeeeeeeee>>\nalready signed test",   # test_sign_file_preexisting_token
        "# @generated no-token\nnot signed", "unsigned", "@generated unsigned", sig,          # test_is_signed
        "@generated SignedSource<<4c0c1ae4f5863c72731b2f543e830fd5>>",
        "# %s\ntest" % sig,
        "a %s b %s c" % (sig, sig), "%s%s" % (sig, sig), "x %s y" % tok, "%s then @generated %s" % (tok, tok),
        "@generated SignedSource<<0123456789abcdef0123456789abcdef>> old\n%s\n" % sig,
        "", "<<", sig[:-1], sig + sig[:20],
    ]
    lines = [p.encode().hex() for p in probes]
    outs = run_native(binary, lines)
    n_ok = 0
    for p, o in zip(probes, outs):
        s_hex, s_valid, t_valid, _ = o.split()
        cs, cv, ctv = conc_eval(X, p.encode())
        nat = (None if s_hex == "-" else bytes.fromhex(s_hex), s_valid == "true", t_valid == "true")
        if (cs, cv, ctv) != nat:
            raise Inconclusive("translator validation failed on %r: encoding %r vs real crate %r" % (p, (cs, cv, ctv), nat))
        n_ok += 1
    return n_ok, probes[:4]


# ---------------------------------------------------------------- classification of counterexamples

GUARD_TEXTS = ["# @generated <<SignedSource::*O*zOeWoEQle#+L!plEphiEmie@IsG>>\nline 1\nline 2\n",
               " @generated <<SignedSource::*O*zOeWoEQle#+L!plEphiEmie@IsG>> Tail ",
               "a\r\n@generated <<SignedSource::*O*zOeWoEQle#+L!plEphiEmie@IsG>>\r\nB\t"]


_FULL = "@generated <<SignedSource::*O*zOeWoEQle#+L!plEphiEmie@IsG>>"
_BARE = "<<SignedSource::*O*zOeWoEQle#+L!plEphiEmie@IsG>>"
# contents that contain the signing token (and possibly further, bare or full, occurrences of the token text): signing must verify
SIGN_TEXTS = GUARD_TEXTS + [
    "// " + _FULL + "\nconst t = '" + _BARE + "';\n",
    "'" + _BARE + "' /* " + _FULL + " */",
    _FULL + "\n" + _FULL + "\n",
    "x " + _FULL + " y " + _BARE + " z " + _FULL,
    _FULL,
    "\u00e9 " + _FULL + " \u4e2d\n",
    _BARE + _FULL + _BARE,
]


def native_sign_guard(binary, violations):
    """every content containing the signing token signs to a file that verifies (real crate, no translator involved)"""
    outs = run_native(binary, [t.encode().hex() for t in SIGN_TEXTS])
    for t, o in zip(SIGN_TEXTS, outs):
        f = o.split()
        if f[0] == "-" or f[1] != "true":
            rp = os.path.join(REPLAYS, PROP, "guard_sign")
            write_replay(rp, t.encode(), "the signed form of a content containing the signing token does not verify (native sign guard)", binary, mode="sign")
            violations.append(("signing %r yields a file that does not verify (native sign guard)" % t, rp))
            break
    return len(SIGN_TEXTS)


def native_edit_guard(binary, violations):
    lines = [t.encode().hex() for t in GUARD_TEXTS]
    outs = run_native(binary, lines)
    edits, meta = [], []
    for t, o in zip(GUARD_TEXTS, outs):
        f = o.split()
        if f[0] == "-" or f[1] != "true":
            continue        # signing itself is Q1's business
        signed = bytes.fromhex(f[0])
        m = re.search(rb"SignedSource<<([a-f0-9]{32})>>", signed)
        lo, hi = m.start(1), m.end(1)
        for p in range(len(signed)):
            if lo <= p < hi:
                continue
            for b in (0x20, 0x0a, 0x78, 0x41, 0x09):
                if signed[p] == b:
                    continue
                e = bytearray(signed)
                e[p] = b
                edits.append(bytes(e).hex())
                meta.append((t, p, b))
    res = run_native(binary, edits)
    bad = [(m_, r) for m_, r in zip(meta, res) if r.split()[2] == "true"]
    for (t, p, b), r in bad[:2]:
        rp = os.path.join(REPLAYS, PROP, "guard_edit_%d" % p)
        signed = bytes.fromhex(run_native(binary, [t.encode().hex()])[0].split()[0])
        e = bytearray(signed); e[p] = b
        write_replay(rp, bytes(e), "edited signed file still verifies (native edit guard)", binary, mode="valid")
        violations.append(("single-character edit at offset %d (byte 0x%02x) of the signed form of %r is not detected" % (p, b, t), rp))
    return len(edits)


def classify_q1(X, text):
    tok = X["newtoken"].encode()
    n_tok = text.count(tok)
    cl = X["classes"]
    A = Conc()
    stale = any(match_at(A, list(text), len(text), i, cl) for i in range(len(text)))
    if stale:
        return "stale-signature-before-token"
    if n_tok >= 2:
        return "token-occurs-more-than-once"
    return "other"


def main():
    t0 = time.time()
    T = tier()
    violations, known_lines, infra = [], [], []
    queries, samples = [], []
    n_valid = 0
    kf = known_findings(PROP)
    known = {k: t for kind, k, t in kf if kind == "known" and k}
    try:
        binary = build_native("signed_driver")
        # ---- stage 0 (not solver-decided; a guard that does not depend on the translator): sign a few texts with the real
        # crate and apply single-character edits at every position outside the signature with a few replacement characters;
        # every edited file must be rejected. A reproduced acceptance is a violation whatever the source now looks like.
        n_sign_guard = native_sign_guard(binary, violations)
        samples.append({"native_sign_guard_texts": n_sign_guard})
        n_guard = native_edit_guard(binary, violations)
        samples.append({"native_edit_guard_edits": n_guard})
        X = extract()
        facts = structural_checks(X)
        n_valid, vs = validate_translation(X, binary)
        samples.append({"translator_validation_inputs": vs})
        # bounds: one token fits from 59; two tokens need 118. quick: lengths around one token and two tokens.
        n = len(X["signing_token"])
        lens_q1 = [n, n + 3, 2 * n] if T == "quick" else [n, n + 1, n + 5, n + 12, 2 * n, 2 * n + 1, 2 * n + 6]
        lens_q2 = [n, n + 2, 2 * n + 1] if T == "quick" else [n, n + 1, n + 4, n + 12, 2 * n, 2 * n + 3]
        os.makedirs(os.path.join(REPLAYS, PROP), exist_ok=True)
        for L in lens_q1:
            # exclude the listed known classes one by one: first look for a counterexample outside them
            q, D = q1_signing_verifies(X, L)
            r = q.check(cross_check=True, cross_timeout_s=120) if L < 100 else q.check_cases(q.layout_cases)
            queries.append(q.summary())
            log("  Q1 len=%d: %s (%.1fs)" % (L, r, q.time_s))
            if r == "sat":
                text = model_bytes(q.model(), D)
                cls = classify_q1(X, text)
                out = run_native(binary, [text.hex()])[0].split()
                reproduces = out[0] != "-" and out[1] == "false"
                samples.append({"query": q.name, "counterexample_text": text.decode("latin1"), "class": cls,
                                "native": {"signed": out[0] != "-", "signature_valid": out[1]}})
                if not reproduces:
                    infra.append("Q1 len=%d: model %r does not reproduce natively (%s)" % (L, text, out))
                    continue
                rp = os.path.join(REPLAYS, PROP, "q1_len%d" % L)
                write_replay(rp, text, "sign_file(text) yields a file that is_valid_signature rejects", binary)
                key = "C33-" + cls
                if cls != "other" and cls in known:
                    known_lines.append("key=%s %s (witness: %r, replay %s)" % (cls, known[cls], text.decode("latin1"), rp))
                    # a different violation must still be reported: re-ask with the known classes excluded
                    q2, D2 = q1_signing_verifies(X, L)
                    exclude_known(X, q2, D2, L, known)
                    r2 = q2.check(cross_check=False) if L < 100 else q2.check_cases(q2.layout_cases)
                    queries.append(dict(q2.summary(), note="known classes excluded"))
                    log("  Q1 len=%d with known classes excluded: %s" % (L, r2))
                    if r2 == "sat":
                        t2 = model_bytes(q2.model(), D2)
                        o2 = run_native(binary, [t2.hex()])[0].split()
                        if o2[0] != "-" and o2[1] == "false":
                            rp2 = os.path.join(REPLAYS, PROP, "q1x_len%d" % L)
                            write_replay(rp2, t2, "sign_file(text) yields a file that is_valid_signature rejects (outside the known classes)", binary)
                            violations.append(("signing does not verify for %r" % t2.decode("latin1"), rp2))
                        else:
                            infra.append("Q1x len=%d: model does not reproduce natively" % L)
                else:
                    violations.append(("signing does not verify for %r (class %s)" % (text.decode("latin1"), cls), rp))
        for L in lens_q2:
            q, (D, p, b, S) = q2_edit_breaks(X, L)
            r = q.check(cross_check=True, cross_timeout_s=120) if L < 100 else q.check_cases(q.layout_cases)
            queries.append(q.summary())
            log("  Q2 len=%d: %s (%.1fs)" % (L, r, q.time_s))
            if r == "sat":
                m = q.model()
                text = model_bytes(m, D)
                pos = m.eval(p, model_completion=True).as_long()
                byte = m.eval(b, model_completion=True).as_long()
                out = run_native(binary, [text.hex()])[0].split()
                signed = bytearray(bytes.fromhex(out[0])) if out[0] != "-" else None
                ok = False
                if signed is not None and pos < len(signed):
                    signed[pos] = byte
                    o2 = run_native(binary, [bytes(signed).hex()])[0].split()
                    ok = o2[2] == "true"
                samples.append({"query": q.name, "text": text.decode("latin1"), "edit": [pos, byte], "reproduces": ok})
                if ok:
                    rp = os.path.join(REPLAYS, PROP, "q2_len%d" % L)
                    write_replay(rp, bytes(signed), "edited signed file still verifies", binary, mode="valid")
                    violations.append(("edit at %d of the signed form of %r still verifies" % (pos, text.decode("latin1")), rp))
                else:
                    infra.append("Q2 len=%d: model does not reproduce natively (real md5 differs from the uninterpreted model)" % L)
    except Inconclusive as e:
        infra.append(str(e))
        X, facts = None, {}

    n_unsat = len([q for q in queries if q["result"] == "unsat"])
    cov = {
        "explanation": "SMT encoding regenerated from signedsource/src/lib.rs (regex literal, NEWTOKEN, SIGNING_TOKEN, replace/replacen, "
                       "find, slice offsets, replace/replace_all); md5 is an uninterpreted function; z3 decides, for every printable "
                       "ASCII text of each listed length, whether a signed text can fail to verify (Q1) and whether a single-byte "
                       "edit outside the signature can leave a signed file valid (Q2).",
        "functions_encoded": ["signedsource::sign", "try_sign_file", "is_valid_signature", "RE", "NEWTOKEN", "SIGNING_TOKEN"],
        "extracted": None if not X else {k: (X[k] if not isinstance(X[k], list) else len(X[k])) for k in
                                          ("regex_text", "newtoken", "signing_token", "sign_all", "tpre", "tpost", "off_a", "off_b", "verify")},
        "structural_facts": facts,
        "source_fingerprint": repo_fingerprint([SRC]),
        "bounds": "texts over printable ASCII + newline of the exact lengths listed per query (one, and two, token occurrences fit); single-byte edits",
        "queries": queries,
        "queries_discharged": len(queries),
        "solver_time_s": round(sum(q["solver_s"] for q in queries), 2),
        "translator_validation_inputs_agreeing": n_valid,
        "evaluations": len(queries) + n_valid,
        "distinct_nontrivial": n_unsat + len([s for s in samples if "query" in s]),
        "rule": "evaluations = SMT queries discharged + translator-validation inputs on which the concrete evaluation of the encoding "
                "(real md5) equals the real crate; distinct_nontrivial = queries answered unsat (property holds for that length) + "
                "distinct sat models replayed natively",
        "samples": samples[:8] or [{"note": "no counterexample found"}],
        "exhaustive": False,
        "known_findings_reported": known_lines,
    }
    assumptions = [
        "md5 modelled as an uninterpreted function: equal inputs equal digests, different inputs different digests (collision resistance is outside any solver's reach and outside the claim)",
        "no accidental fixed point: a 32-hex substring already present in the content is not the md5 of the text being verified, and a text does not contain its own md5 digest",
        "Q2 assumes the unsigned content carries no stale `@generated SignedSource<<hex>>` text",
        "texts are printable ASCII plus newline; lengths are the listed ones, not all lengths",
        "regex semantics: leftmost match of a fixed-length pattern (the extracted regex must flatten to a fixed-length sequence of byte classes, else the check is inconclusive)",
        "every query is answered by z3 (python API) and cross-checked by /usr/bin/z3 4.8.12 and cvc5 on the SMT-LIB2 dump",
    ]
    write_evidence(PROP, "other", cov, assumptions, time.time() - t0, len(violations))
    finish(PROP, violations, known_lines, infra)


def exclude_known(X, q, D, L, known):
    A = Sym()
    tok = X["newtoken"]
    cl = X["classes"]
    if "token-occurs-more-than-once" in known:
        hits = [occ_at(A, D, L, i, tok) for i in range(L - len(tok) + 1)]
        q.add(z3.AtMost(*hits, 1))
    if "stale-signature-before-token" in known:
        for i in range(L - len(cl) + 1):
            q.add(z3.Not(match_at(A, D, L, i, cl)))


def write_replay(path, text, what, binary, mode="sign"):
    os.makedirs(path, exist_ok=True)
    with open(os.path.join(path, "input.hex"), "w") as f:
        f.write(text.hex() + "\n")
    with open(os.path.join(path, "REPLAY.md"), "w") as f:
        f.write("Property C33: %s.\nInput (hex in input.hex): %r\nRun: bash %s/replay.sh  (exit status 1 = violation reproduces with the real signedsource crate)\n" % (what, text, path))
    with open(os.path.join(path, "replay.sh"), "w") as f:
        if mode == "sign":
            f.write("#!/bin/bash\nout=$(%s < %s/input.hex)\necho \"$out\"\n# fields: signed-hex valid(signed) valid(input) is_signed(input)\n[ \"$(echo $out | cut -d' ' -f2)\" = true ] && exit 0 || exit 1\n" % (binary, path))
        else:
            f.write("#!/bin/bash\nout=$(%s < %s/input.hex)\necho \"$out\"\n[ \"$(echo $out | cut -d' ' -f3)\" = true ] && exit 1 || exit 0\n" % (binary, path))


if __name__ == "__main__":
    main()
