"""C29 (one clause) The value the GraphQL syntax crate reads from a block string is the specification's BlockStringValue.

C29 demands a tree with the same block-string values as a reference implementation. relay_parser.rs carries its own
`clean_block_string_literal` (three call sites: descriptions, hack sources, constant values). The machinery is that of
C30 (props/C30.py): the function and its helpers are re-read from relay_parser.rs, composed into a z3 string term over
enumerated block-string shapes and compared with BlockStringValue; models are replayed through the real
graphql_syntax::parse_schema_document with the block string as a directive argument (native/gql_driver, public API)."""
import C30

CFG = {"prop": "C29", "file": "relay-crates/graphql-syntax/src/relay_parser.rs", "driver": "gql_driver", "what": "the block string value",
       "callers": [C30.norm("let value = clean_block_string_literal(source).intern(); Some(StringNode { token, value })"),
                   C30.norm("let value = clean_block_string_literal(source); Ok(ConstantValue::String(StringNode { token, value: value.intern(), }))")],
       "replay_note": "native replay goes through the public graphql_syntax::parse_schema_document on `type Q @d(a: <block string>) { a: Int }` (constant value call site)",
       "outside": "acceptance of exactly the documents of the specification grammar, the rest of the tree (definitions, names, arguments, other values) and print/re-parse round trips need a reference implementation and are outside the claim; ordinary string values are kept raw by this crate by design"}


def main():
    C30.main(CFG)


if __name__ == "__main__":
    main()
