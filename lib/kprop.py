"""Driver for properties decided with Engine K (Kani/CBMC)."""
import os, sys, time, json
from common import (tier, seed, log, write_evidence, known_findings, finish, ncpu, repo_fingerprint,
                    EXIT_INFRA)
import kani


def run_k_property(prop, crate, specs, *, functions, files, assumptions, explanation,
                   level="other", flags=(), max_parallel=4, extra_cov=None, pre_stage=None):
    """specs: list of dicts
         name      harness fn name
         tiers     subset of {"quick","thorough"} in which it runs
         batch     batch tag (harnesses with the same tag share one cargo-kani invocation)
         bound     human-readable bound of this harness
         what      what it asserts
         known_key optional: key of a known finding this harness is expected to hit; the harness
                   named in `twin` (same assertion with the known class assumed away) must pass.
         timeout   per-batch timeout (max over members is used)
    """
    t0 = time.time()
    T = tier()
    active = [s for s in specs if T in s.get("tiers", ("quick", "thorough"))]
    kf = known_findings(prop)
    known_keys = {k for kind, k, _ in kf if kind == "known" and k}
    batches = {}
    for s in active:
        b = batches.setdefault(s["batch"], {"crate": s.get("crate", crate), "harnesses": [], "tag": s["batch"],
                                            "timeout": 0, "flags": list(flags) + list(s.get("flags", ())),
                                            "jobs": 1, "mem_gb": s.get("mem_gb", 14)})
        b["harnesses"].append(s["name"])
        b["timeout"] = max(b["timeout"], s.get("timeout", 900))
    nb = max(1, len(batches))
    per_batch_jobs = max(1, ncpu() // min(nb, max_parallel))
    for b in batches.values():
        b["jobs"] = min(per_batch_jobs, len(b["harnesses"]))
        # terse/-j output is ~2.5x slower per harness; the timeout is per batch
        b["timeout"] = b["timeout"] * (2 if b["jobs"] > 1 else 1)
    pre = pre_stage() if pre_stage is not None else None
    log("[%s] tier=%s: %d harnesses in %d cargo-kani batches (crate %s)" % (prop, T, len(active), nb, crate))
    results, metas = kani.run_batches(list(batches.values()), max_parallel=max_parallel)

    violations, known_lines, infra = [], [], []
    if pre is not None:
        violations += pre["violations"]
        infra += pre["infra"]
        extra_cov = dict(extra_cov or {}, **pre.get("cov", {}))
    for m in metas:
        if m["build_failed"]:
            infra.append("harness crate does not build against /repo's current tree: " + m["tail"][-600:].replace("\n", " | "))
    hsamples = []
    n_checks = 0
    n_cov = 0
    solver_s = 0.0
    for s in active:
        r = results.get(s["name"])
        if r is None:
            infra.append("no result for harness %s" % s["name"])
            continue
        n_checks += r.checks_total
        n_cov += r.covers_sat
        solver_s += r.time_s
        d = r.as_dict()
        d["bound"] = s.get("bound", "")
        d["asserts"] = s.get("what", "")
        hsamples.append(d)
        log("  %-40s %-8s checks=%d covers=%d/%d solver=%.1fs" % (s["name"], r.status, r.checks_total,
                                                                  r.covers_sat, r.covers_total, r.time_s))
        key = s.get("known_key")
        if r.status == "SUCCESS":
            if key and key in known_keys:
                log("  note: known finding %s no longer reproduces in harness %s" % (key, s["name"]))
            continue
        if r.status == "FAILED":
            ok, rdir, detail = kani.replay(s.get("crate", crate), s["name"], prop, flags=list(flags) + list(s.get("flags", ())),
                                           timeout=s.get("replay_timeout", 1800))
            if ok is None and s.get("native_fallback"):
                # Kani could not produce a concrete playback test in time: reproduce the scenario of the failed assertion with a
                # native test of the real crate (fixed values; the violated clause does not depend on the values)
                nf = s["native_fallback"]
                import shutil, subprocess
                from common import REPO, BUILD, REPLAYS, env_offline
                shutil.copyfile(os.path.join(REPO, "Cargo.lock"), os.path.join(nf["dir"], "Cargo.lock"))
                env = env_offline({"CARGO_TARGET_DIR": os.path.join(BUILD, "native")})
                pr = subprocess.run(nf["cmd"], cwd=nf["dir"], env=env, capture_output=True, text=True, timeout=1800)
                failed = "test result: FAILED" in pr.stdout
                passed = pr.returncode == 0 and "test result: ok" in pr.stdout
                if failed:
                    rdir = os.path.join(REPLAYS, prop, s["name"] + "_native")
                    os.makedirs(rdir, exist_ok=True)
                    with open(os.path.join(rdir, "replay.sh"), "w") as f:
                        f.write("#!/bin/bash\n# exit status != 0 iff the violation reproduces natively\ncd %s && CARGO_NET_OFFLINE=true CARGO_TARGET_DIR=%s %s\n"
                                % (nf["dir"], os.path.join(BUILD, "native"), " ".join(nf["cmd"])))
                    with open(os.path.join(rdir, "REPLAY.md"), "w") as f:
                        f.write("Property %s, harness %s failed under CBMC (%s); Kani's concrete playback did not finish (%s).\n"
                                "The same scenario is reproduced by the native test %s (fixed values) against the real crate: it fails.\nRun: bash %s/replay.sh\n"
                                % (prop, s["name"], "; ".join(r.failed[:2]), detail, nf["what"], rdir))
                    ok, detail = True, "native scenario test fails: " + nf["what"]
                elif passed:
                    ok, detail = False, "native scenario test passes (%s) although the harness failed" % nf["what"]
            d["replay"] = {"confirmed_natively": ok, "dir": rdir, "detail": detail}
            if ok is True:
                what = "%s: %s [%s]" % (s["name"], "; ".join(r.failed[:3]), detail)
                if key and key in known_keys:
                    text = [t for kind, k, t in kf if k == key][0]
                    known_lines.append("key=%s %s (harness %s, replay %s)" % (key, text, s["name"], rdir))
                else:
                    violations.append((what, rdir))
            elif ok is False:
                infra.append("harness %s: CBMC counterexample does not reproduce natively (%s) - encoding/shim problem, not reported as a violation" % (s["name"], detail))
            else:
                infra.append("harness %s failed (%s) but the counterexample could not be replayed: %s" % (s["name"], "; ".join(r.failed[:3]), detail))
        else:
            infra.append("harness %s: %s %s" % (s["name"], r.status, "; ".join(r.failed[:2])))

    cov = {
        "explanation": explanation,
        "engine": "Kani 0.68.0 / CBMC 6.11.0 (cadical), unwinding assertions on",
        "functions_encoded": functions,
        "source_fingerprint": repo_fingerprint(files),
        "harnesses": hsamples,
        "queries_discharged": n_checks,
        "solver_time_s": round(solver_s, 2),
        "evaluations": n_checks,
        "distinct_nontrivial": n_cov + len([h for h in hsamples if h["status"] == "SUCCESS"]),
        "rule": "evaluations = CBMC properties (assertions, overflow/pointer checks, unwinding assertions) decided over all "
                "symbolic inputs within each harness's bound; distinct_nontrivial = harnesses decided SUCCESS + reachability "
                "covers SATISFIED (each cover is a distinct non-vacuity witness found by the solver)",
        "samples": hsamples[:6],
        "exhaustive": False,
        "known_findings_reported": known_lines,
    }
    if extra_cov:
        cov.update(extra_cov)
    write_evidence(prop, level, cov, assumptions, time.time() - t0, len(violations))
    finish(prop, violations, known_lines, infra)
