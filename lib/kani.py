"""Engine K: run Kani/CBMC harnesses that live in /verif/kani/<crate> against /repo's current tree.

A *batch* is one `cargo kani` invocation (own target dir) verifying a list of harnesses.
Verdict per harness:
  SUCCESS  - VERIFICATION:- SUCCESSFUL and every cover satisfied (bounded claim holds)
  FAILED   - at least one real check failed (candidate violation; must be replayed natively)
  UNWIND   - an unwinding assertion failed (bound too small: infrastructure error, never success)
  VACUOUS  - successful but a cover was not satisfied (harness does not reach its assertions)
  ERROR / TIMEOUT / MISSING - no verdict (infrastructure error, never success)
"""
import os, re, shutil, time, glob
from concurrent.futures import ThreadPoolExecutor
from common import VERIF, REPO, BUILD, REPLAYS, run, env_offline, log

KANI_DIR = os.path.join(VERIF, "kani")


class HResult:
    def __init__(self, name):
        self.name = name
        self.status = "MISSING"
        self.checks_total = 0
        self.checks_failed = 0
        self.failed = []          # descriptions of failed checks
        self.covers_sat = 0
        self.covers_total = 0
        self.time_s = 0.0
        self.raw = ""

    def as_dict(self):
        return {"harness": self.name, "status": self.status, "checks": self.checks_total,
                "failed_checks": self.failed[:8], "covers_satisfied": self.covers_sat,
                "covers_total": self.covers_total, "solver_s": round(self.time_s, 3)}


def prepare_crate(crate):
    """(Re)generate the workspace bits that depend on /repo: the lock file is copied from the
    repository on every run so that the resolved versions are the repository's."""
    cdir = os.path.join(KANI_DIR, crate)
    src_lock = os.path.join(REPO, "Cargo.lock")
    lock = os.path.join(cdir, "Cargo.lock")
    keep = os.path.join(cdir, "Cargo.lock.extra")
    # Start from the repository's lock file; cargo adds the entries of the harness crate and
    # of the path-patched shim crates itself (offline, nothing to fetch).
    shutil.copyfile(src_lock, lock)
    return cdir


_RE_THREAD = re.compile(r"^Thread (\d+): ?(.*)$")


def _split_per_harness(out, harnesses):
    """Return {harness_short_name: text}. Handles both sequential and `-j` (Thread N:) output."""
    res = {}
    lines = out.splitlines()
    threaded = any(_RE_THREAD.match(l) for l in lines)
    cur = None
    thread_h = {}
    cur_thread = None
    for l in lines:
        if threaded:
            m = _RE_THREAD.match(l)
            if m:
                cur_thread = int(m.group(1))
                rest = m.group(2)
                mm = re.match(r"Checking harness (\S+?)\.\.\.", rest)
                if mm:
                    thread_h[cur_thread] = mm.group(1).split("::")[-1]
                    res.setdefault(thread_h[cur_thread], "")
                    continue
                l = rest
            if cur_thread is not None and cur_thread in thread_h:
                res[thread_h[cur_thread]] += l + "\n"
        else:
            mm = re.match(r"Checking harness (\S+?)\.\.\.", l)
            if mm:
                cur = mm.group(1).split("::")[-1]
                res.setdefault(cur, "")
                continue
            if cur is not None:
                res[cur] += l + "\n"
    return res


def parse_harness_output(name, text):
    r = HResult(name)
    r.raw = text
    m = re.search(r"\*\* (\d+) of (\d+) failed", text)
    if m:
        r.checks_failed, r.checks_total = int(m.group(1)), int(m.group(2))
    m = re.search(r"\*\* (\d+) of (\d+) cover properties satisfied", text)
    if m:
        r.covers_sat, r.covers_total = int(m.group(1)), int(m.group(2))
    m = re.search(r"Verification Time: ([0-9.]+)s", text)
    if m:
        r.time_s = float(m.group(1))
    r.failed = [d.strip() for d in re.findall(r"Failed Checks: (.*)", text)]
    if "VERIFICATION:- SUCCESSFUL" in text:
        if r.covers_total and r.covers_sat < r.covers_total:
            r.status = "VACUOUS"
        else:
            r.status = "SUCCESS"
    elif "VERIFICATION:- FAILED" in text:
        real = [d for d in r.failed if not _is_infra_failure(d)]
        if "Status: ERROR" in text or "CBMC failed" in text or "out of memory" in text.lower():
            r.status = "ERROR"
        elif real:
            r.status = "FAILED"
            r.failed = real + [d for d in r.failed if d not in real]
        elif r.failed:
            r.status = "UNWIND" if any("unwinding assertion" in d for d in r.failed) else "ERROR"
        else:
            r.status = "ERROR"
    elif "CBMC timed out" in text or "timed out" in text:
        r.status = "TIMEOUT"
    else:
        r.status = "ERROR"
    return r


def _is_infra_failure(desc):
    d = desc.lower()
    return ("unwinding assertion" in d or "is not currently supported by kani" in d
            or "unsupported" in d and "kani" in d or "recursion unwinding" in d)


def run_batch(crate, harnesses, tag, jobs=1, timeout=1800, mem_gb=14, flags=(), harness_timeout=None):
    """Verify `harnesses` (short fn names) of /verif/kani/<crate> in one cargo-kani invocation."""
    cdir = prepare_crate(crate)
    tdir = os.path.join(BUILD, "target", "%s-%s" % (crate, tag))
    os.makedirs(tdir, exist_ok=True)
    cmd = ["cargo", "kani", "--target-dir", tdir]
    for h in harnesses:
        cmd += ["--harness", h]
    if jobs > 1 and len(harnesses) > 1:
        cmd += ["-j", str(min(jobs, len(harnesses))), "--output-format", "terse"]
    if harness_timeout:
        cmd += ["--harness-timeout", "%ds" % harness_timeout]
    cmd += list(flags)
    rc, out, wall, to = run(cmd, cwd=cdir, timeout=timeout, mem_gb=mem_gb)
    os.makedirs(os.path.join(BUILD, "logs"), exist_ok=True)
    with open(os.path.join(BUILD, "logs", "%s-%s.log" % (crate, tag)), "w") as f:
        f.write("$ " + " ".join(cmd) + "\n" + out)
    per = _split_per_harness(out, harnesses)
    results = {}
    for h in harnesses:
        if h in per:
            r = parse_harness_output(h, per[h])
        else:
            r = HResult(h)
            r.raw = out[-4000:]
        if r.status in ("MISSING", "ERROR") and to:
            r.status = "TIMEOUT"
        results[h] = r
    build_failed = ("error: could not compile" in out or "error[E" in out) and not per
    return results, {"cmd": " ".join(cmd), "rc": rc, "wall_s": wall, "timed_out": to,
                     "build_failed": build_failed, "tail": out[-3000:] if (build_failed or not per) else ""}


def run_batches(batches, max_parallel=4):
    """batches: list of dict(crate, harnesses, tag, jobs, timeout, flags). Runs them concurrently."""
    allres, metas = {}, []
    def one(b):
        return run_batch(b["crate"], b["harnesses"], b["tag"], b.get("jobs", 1), b.get("timeout", 1800),
                         b.get("mem_gb", 14), b.get("flags", ()), b.get("harness_timeout"))
    # `cargo kani` invocations on the same crate dir share Cargo.lock: prepare sequentially first.
    with ThreadPoolExecutor(max_workers=max_parallel) as ex:
        for res, meta in ex.map(one, batches):
            allres.update(res)
            metas.append(meta)
    return allres, metas


# ------------------------------------------------------------------ replay of counterexamples

def _find_harness_file(cdir, harness):
    for p in glob.glob(os.path.join(cdir, "src", "**", "*.rs"), recursive=True):
        s = open(p).read()
        if re.search(r"\bfn\s+%s\s*\(" % re.escape(harness), s):
            return p
    return None


def replay(crate, harness, prop, flags=(), timeout=1800):
    """Turn CBMC's counterexample for `harness` into a native unit test and run it against the
    real (rustc-compiled) code with `cargo kani playback`. Returns (confirmed, replay_dir, detail):
    confirmed True = the native test fails (violation reproduces), False = it passes
    (counterexample does not reproduce: encoding problem), None = could not replay."""
    cdir = prepare_crate(crate)
    tdir = os.path.join(BUILD, "target", "%s-replay" % crate)
    cmd = ["cargo", "kani", "--target-dir", tdir, "--harness", harness,
           "-Z", "concrete-playback", "--concrete-playback=print"] + list(flags)
    rc, out, wall, to = run(cmd, cwd=cdir, timeout=timeout)
    blocks = re.findall(r"```\n(.*?)\n```", out, re.S)
    tests = []
    for b in blocks:
        m = re.search(r"(#\[test\]\nfn (kani_concrete_playback_\w+)\(\).*\n\})", b, re.S)
        if not m:
            continue
        doc = b[:m.start()]
        if "Check for `cover`" in doc:
            continue  # witnesses of reachability covers, not counterexamples
        tests.append((m.group(1), m.group(2), doc.strip()))
    if not tests:
        return None, None, "no concrete playback test produced (rc=%s, timeout=%s)" % (rc, to)
    tests = tests[:3]
    rdir = os.path.join(REPLAYS, prop, harness)
    if os.path.exists(rdir):
        shutil.rmtree(rdir)
    os.makedirs(os.path.dirname(rdir), exist_ok=True)
    shutil.copytree(cdir, rdir, ignore=shutil.ignore_patterns("target"))
    hfile = _find_harness_file(rdir, harness)
    if hfile is None:
        return None, rdir, "harness source not found"
    with open(hfile, "a") as f:
        f.write("\n// ---- counterexample(s) produced by CBMC, replayed natively ----\n")
        for src, name, doc in tests:
            f.write(doc + "\n" + src + "\n")
    names = [n for _, n, _ in tests]
    with open(os.path.join(rdir, "replay.sh"), "w") as f:
        f.write("#!/bin/bash\n# exit status != 0 iff the violation reproduces natively\ncd %s && CARGO_NET_OFFLINE=true "
                "CARGO_TARGET_DIR=%s cargo kani playback -Z concrete-playback -- kani_concrete_playback\n"
                % (rdir, os.path.join(BUILD, "target", "%s-playback" % crate)))
    with open(os.path.join(rdir, "REPLAY.md"), "w") as f:
        f.write("Property %s, harness %s.\nRun:  bash %s/replay.sh\n"
                "The test(s) %s feed CBMC's counterexample values to the harness, compiled natively (rustc, cfg(kani) hooks on) "
                "against /repo; a test fails iff the violation reproduces.\n" % (prop, harness, rdir, ", ".join(names)))
    pcmd = ["cargo", "kani", "playback", "-Z", "concrete-playback", "--", "kani_concrete_playback"]
    rc2, out2, _, to2 = run(pcmd, cwd=rdir, timeout=timeout,
                            env=env_offline({"CARGO_TARGET_DIR": os.path.join(BUILD, "target", "%s-playback" % crate)}))
    with open(os.path.join(rdir, "replay.log"), "w") as f:
        f.write(out2)
    if to2:
        return None, rdir, "native replay timed out"
    if re.search(r"test result: FAILED", out2):
        msg = re.search(r"panicked at [^\n]*\n[^\n]*", out2)
        return True, rdir, (msg.group(0).replace("\n", " ") if msg else "test failed")
    if re.search(r"test result: ok\. \d+ passed", out2):
        return False, rdir, "counterexample does not reproduce natively"
    return None, rdir, "native replay inconclusive: " + out2[-400:]
