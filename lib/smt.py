"""Engine S helpers: z3 (python API, z3-solver wheel = the `z3-new` 5.x engine) as the deciding solver,
every query cross-checked with /usr/bin/z3 4.8.12 and cvc5 on the SMT-LIB2 dump, native drivers
for translator validation and replay. Run under python3-vt (the tooling venv)."""
import os, re, subprocess, time, hashlib, tempfile
import z3
from common import VERIF, REPO, BUILD, run, env_offline, log

NATIVE = os.path.join(VERIF, "native")


class Inconclusive(Exception):
    pass


class Query:
    """One satisfiability query; `sat` means a counterexample to the property exists."""
    def __init__(self, name, solver_timeout_s=300, simple=False):
        self.name = name
        # z3.Solver() (combined solver) was orders of magnitude slower than SimpleSolver on the string
        # queries of C12 (a 1 s unsat query ran past 120 s); the bit-vector queries of C33 use the default.
        self.s = z3.SimpleSolver() if simple else z3.Solver()
        self.s.set("timeout", solver_timeout_s * 1000)
        self.time_s = 0.0
        self.result = None
        self.cross = {}

    def add(self, *cs):
        self.s.add(*cs)

    def check(self, cross_check=True, cross_timeout_s=300):
        t0 = time.time()
        r = self.s.check()
        self.time_s = time.time() - t0
        self.result = str(r)
        if self.result == "unknown":
            raise Inconclusive("query %s: z3 answered unknown (%s)" % (self.name, self.s.reason_unknown()))
        if cross_check:
            self._cross(cross_timeout_s)
        return self.result

    def check_portfolio(self, timeout_s=60):
        """Discharge the query with three solver binaries in parallel on the SMT-LIB2 dump (cvc5, z3 5.x CLI,
        z3 4.8.12). Verdict = the answers agree (those that answer); a disagreement or an (error line is
        inconclusive. A sat verdict is then re-solved in-process to obtain the model."""
        t0 = time.time()
        smt2 = "(set-logic ALL)\n" + self.s.to_smt2()
        os.makedirs(os.path.join(BUILD, "smt"), exist_ok=True)
        path = os.path.join(BUILD, "smt", re.sub(r"\W", "_", self.name) + "_%d.smt2" % os.getpid())
        with open(path, "w") as f:
            f.write(smt2)
        # z3 prints character constants as (_ Char n); SMT-LIB 2.6 / cvc5 spell them (_ char #xh)
        smt2c = re.sub(r"\(seq\.unit \(_ Char (\d+)\)\)", lambda m: "(_ char #x%x)" % int(m.group(1)), smt2)
        smt2c = re.sub(r"\(_ Char (\d+)\)", lambda m: "(_ char #x%x)" % int(m.group(1)), smt2c)
        pathc = path + ".cvc5.smt2"
        with open(pathc, "w") as f:
            f.write(smt2c)
        cmds = {"cvc5": ["cvc5", "--lang", "smt2", "--strings-exp", "--tlimit=%d" % (timeout_s * 1000), pathc],
                "z3-5.1": ["z3-new", "-T:%d" % timeout_s, path],
                "z3-4.8.12": ["/usr/bin/z3", "-T:%d" % timeout_s, path]}
        procs = {k: subprocess.Popen(c, stdout=subprocess.PIPE, stderr=subprocess.STDOUT, text=True) for k, c in cmds.items()}
        answers = {}
        for k, p in procs.items():
            try:
                out, _ = p.communicate(timeout=timeout_s + 20)
            except subprocess.TimeoutExpired:
                p.kill()
                out = ""
            ans = None
            if "(error" in out:
                ans = "error"
            else:
                for l in out.splitlines():
                    if l.strip() in ("sat", "unsat"):
                        ans = l.strip()
                        break
            answers[k] = ans
        self.cross = answers
        self.time_s = time.time() - t0
        definite = {a for a in answers.values() if a in ("sat", "unsat")}
        if "error" in answers.values() and not definite:
            raise Inconclusive("query %s: solver (error line, no definite answer: %r" % (self.name, answers))
        if len(definite) > 1:
            raise Inconclusive("query %s: solvers disagree: %r" % (self.name, answers))
        if not definite:
            raise Inconclusive("query %s: no solver answered within %ds: %r" % (self.name, timeout_s, answers))
        self.result = definite.pop()
        if self.result == "sat":
            self.s.set("timeout", 60 * 1000)
            r = str(self.s.check())
            if r != "sat":
                # ask cvc5 for the values of all constants and pin them in-process
                vals = self._cvc5_values(smt2c, timeout_s)
                self.s.push()
                for name, sort, val in vals:
                    try:
                        if sort == "String":
                            self.s.add(z3.String(name) == z3.StringVal(val))
                        elif sort == "Int":
                            self.s.add(z3.Int(name) == int(val))
                        elif sort == "Bool":
                            self.s.add(z3.Bool(name) == (val == "true"))
                    except Exception:
                        pass
                self.s.set("timeout", 120 * 1000)
                r = str(self.s.check())
                if r != "sat":
                    self.s.pop()
                    raise Inconclusive("query %s: sat according to %r but no model could be produced in-process" % (self.name, answers))
                self._model = self.s.model()
                self.s.pop()
        for f_ in (path, pathc):
            try:
                os.remove(f_)
            except OSError:
                pass
        return self.result

    def _cvc5_values(self, smt2c, timeout_s):
        """values of all 0-ary String/Int/Bool constants according to cvc5 (used to seed the in-process model)"""
        decls = re.findall(r"\(declare-fun (\S+) \(\) (String|Int|Bool)\)", smt2c)
        if not decls:
            return []
        body = smt2c.replace("(check-sat)", "")
        q = "(set-option :produce-models true)\n" + body + "\n(check-sat)\n(get-value (%s))\n" % " ".join(n for n, _ in decls)
        path = os.path.join(BUILD, "smt", "values_%d.smt2" % os.getpid())
        with open(path, "w") as f:
            f.write(q)
        rc, out, wall, to = run(["cvc5", "--lang", "smt2", "--strings-exp", "--tlimit=%d" % (timeout_s * 1000), path], timeout=timeout_s + 30)
        vals = []
        sorts = dict(decls)
        for m in re.finditer(r"\((\S+) (\"(?:[^\"]|\"\")*\"|\(- \d+\)|-?\d+|true|false)\)", out):
            name, v = m.group(1), m.group(2)
            if name not in sorts:
                continue
            if v.startswith('"'):
                v = v[1:-1].replace('""', '"')
            elif v.startswith("(-"):
                v = "-" + v[3:-1].strip()
            vals.append((name, sorts[name], v))
        return vals

    def check_cases(self, cases, per_case_timeout_s=120, nproc=12):
        """Exhaustive case split (the cases must cover every model of the base constraints; the caller
        states why). sat as soon as one case is sat (its model is kept); unsat if all are unsat.
        The cases are distributed over forked workers; a sat case is re-solved in the parent for its model."""
        import json as _json
        t0 = time.time()
        self.s.set("timeout", per_case_timeout_s * 1000)
        self.cases = {"n": len(cases), "sat": 0, "unsat": 0}
        self._model = None

        def solve_one(cs):
            self.s.push()
            self.s.add(*cs)
            r = str(self.s.check())
            m = self.s.model() if r == "sat" else None
            reason = self.s.reason_unknown() if r == "unknown" else ""
            self.s.pop()
            return r, m, reason

        nproc = max(1, min(nproc, len(cases) // 4))
        if nproc <= 1:
            for cs in cases:
                r, m, reason = solve_one(cs)
                if r == "sat":
                    self._model = m
                    self.cases["sat"] += 1
                    break
                if r == "unknown":
                    self.time_s = time.time() - t0
                    raise Inconclusive("query %s: z3 answered unknown on one case of the split (%s)" % (self.name, reason))
                self.cases["unsat"] += 1
        else:
            kids = []
            for w in range(nproc):
                rfd, wfd = os.pipe()
                pid = os.fork()
                if pid == 0:
                    os.close(rfd)
                    res = {"unsat": 0, "sat_index": None, "unknown": None}
                    try:
                        for idx in range(w, len(cases), nproc):
                            r, _m, reason = solve_one(cases[idx])
                            if r == "sat":
                                res["sat_index"] = idx
                                break
                            if r == "unknown":
                                res["unknown"] = reason or "unknown"
                                break
                            res["unsat"] += 1
                    except BaseException as e:
                        res["unknown"] = "worker failed: %r" % (e,)
                    with os.fdopen(wfd, "w") as f:
                        f.write(_json.dumps(res))
                    os._exit(0)
                os.close(wfd)
                kids.append((pid, rfd))
            sat_idx, unknowns = [], []
            for pid, rfd in kids:
                with os.fdopen(rfd) as f:
                    data = f.read()
                os.waitpid(pid, 0)
                try:
                    res = _json.loads(data)
                except ValueError:
                    unknowns.append("worker died")
                    continue
                self.cases["unsat"] += res["unsat"]
                if res["sat_index"] is not None:
                    sat_idx.append(res["sat_index"])
                if res["unknown"]:
                    unknowns.append(res["unknown"])
            if sat_idx:
                r, m, reason = solve_one(cases[min(sat_idx)])
                if r != "sat":
                    raise Inconclusive("query %s: a worker reported sat but the parent could not reproduce the model" % self.name)
                self._model = m
                self.cases["sat"] += 1
            elif unknowns:
                self.time_s = time.time() - t0
                raise Inconclusive("query %s: z3 answered unknown on a case of the split (%s)" % (self.name, unknowns[0]))
        self.time_s = time.time() - t0
        self.result = "sat" if self._model is not None else "unsat"
        return self.result

    def model(self):
        return getattr(self, "_model", None) or self.s.model()

    def _cross(self, timeout_s):
        smt2 = "(set-logic ALL)\n" + self.s.to_smt2()
        os.makedirs(os.path.join(BUILD, "smt"), exist_ok=True)
        path = os.path.join(BUILD, "smt", re.sub(r"\W", "_", self.name) + ".smt2")
        with open(path, "w") as f:
            f.write(smt2)
        # z3 prints character constants as (_ Char n); SMT-LIB 2.6 / cvc5 spell them (_ char #xh)
        smt2c = re.sub(r"\(seq\.unit \(_ Char (\d+)\)\)", lambda m: "(_ char #x%x)" % int(m.group(1)), smt2)
        smt2c = re.sub(r"\(_ Char (\d+)\)", lambda m: "(_ char #x%x)" % int(m.group(1)), smt2c)
        pathc = path + ".cvc5.smt2"
        with open(pathc, "w") as f:
            f.write(smt2c)
        for tool, cmd in (("z3-4.8.12", ["/usr/bin/z3", "-T:%d" % timeout_s, path]),
                          ("cvc5", ["cvc5", "--lang", "smt2", "--strings-exp", "--tlimit=%d" % (timeout_s * 1000), pathc])):
            rc, out, wall, to = run(cmd, timeout=timeout_s + 30)
            ans = None
            if "(error" in out:
                ans = "error"
            else:
                for l in out.splitlines():
                    if l.strip() in ("sat", "unsat", "unknown"):
                        ans = l.strip()
                        break
            self.cross[tool] = {"answer": ans, "wall_s": round(wall, 2)}
            if ans in ("sat", "unsat") and ans != self.result:
                raise Inconclusive("query %s: solvers disagree (z3py=%s, %s=%s)" % (self.name, self.result, tool, ans))
            if ans == "error":
                raise Inconclusive("query %s: %s reported an (error line: %s" % (self.name, tool, out[:300]))

    def summary(self):
        d = {"query": self.name, "result": self.result, "solver_s": round(self.time_s, 3), "cross_check": self.cross}
        if hasattr(self, "cases"):
            d["case_split"] = self.cases
        return d


def build_native(name, profile="release"):
    """Build /verif/native/<name> (a cargo bin with a path dependency on /repo) and return the binary path.
    profile "dev" = the profile of `cargo test` / `cargo build` (debug assertions and overflow checks on)."""
    d = os.path.join(NATIVE, name)
    lock = os.path.join(d, "Cargo.lock")
    import shutil
    shutil.copyfile(os.path.join(REPO, "Cargo.lock"), lock)
    cmd = ["cargo", "build"] + (["--release"] if profile == "release" else [])
    rc, out, wall, to = run(cmd, cwd=d, timeout=1800,
                            env=env_offline({"CARGO_TARGET_DIR": os.path.join(BUILD, "native")}))
    if rc != 0:
        raise Inconclusive("native driver %s does not build against /repo: %s" % (name, out[-800:]))
    return os.path.join(BUILD, "native", "release" if profile == "release" else "debug", name)


def run_native(binary, lines, timeout=120):
    p = subprocess.run([binary], input="\n".join(lines) + "\n", capture_output=True, text=True, timeout=timeout)
    if p.returncode != 0:
        raise Inconclusive("native driver failed: " + p.stderr[-400:])
    return p.stdout.splitlines()


# ------------------------------------------------------------------ source extraction helpers

def read_repo(rel):
    with open(os.path.join(REPO, rel), encoding="utf-8") as f:
        return f.read()


def extract_fn(src, name):
    """Return the text of `fn name(...) ... { body }` (brace matched, string/char literals skipped)."""
    m = re.search(r"\bfn\s+%s\b" % re.escape(name), src)
    if not m:
        raise Inconclusive("encoding not regenerable: function %s not found" % name)
    i = src.index("{", m.end())
    depth, j = 0, i
    in_str = None
    while j < len(src):
        c = src[j]
        if in_str:
            if c == "\\":
                j += 2
                continue
            if c == in_str:
                in_str = None
        elif c == '"':
            in_str = '"'
        elif c == "'" and re.match(r"'(\\.|[^\\'])'", src[j:j + 4] if src[j + 1] != "\\" else src[j:j + 6]):
            mm = re.match(r"'(\\x[0-9a-fA-F]{2}|\\u\{[0-9a-fA-F]+\}|\\.|[^\\'])'", src[j:])
            if mm:
                j += mm.end()
                continue
        elif c == "/" and src[j:j + 2] == "//":
            j = src.index("\n", j)
            continue
        elif c == "{":
            depth += 1
        elif c == "}":
            depth -= 1
            if depth == 0:
                return src[m.start():j + 1]
        j += 1
    raise Inconclusive("encoding not regenerable: unbalanced braces in %s" % name)


def rust_str_literal(lit):
    """Decode the inside of a Rust "..." literal (\\xNN, \\n, \\t, \\\\, \\", \\u{...})."""
    out = []
    i = 0
    while i < len(lit):
        c = lit[i]
        if c == "\\":
            n = lit[i + 1]
            if n == "x":
                out.append(chr(int(lit[i + 2:i + 4], 16)))
                i += 4
                continue
            if n == "u":
                e = lit.index("}", i)
                out.append(chr(int(lit[i + 3:e], 16)))
                i = e + 1
                continue
            out.append({"n": "\n", "t": "\t", "r": "\r", "\\": "\\", '"': '"', "'": "'", "0": "\0"}[n])
            i += 2
            continue
        out.append(c)
        i += 1
    return "".join(out)
