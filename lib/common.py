"""Shared helpers for the /verif checks: evidence files, known findings, exit protocol."""
import json, os, sys, time, subprocess, resource, signal, hashlib

VERIF = os.path.dirname(os.path.dirname(os.path.abspath(__file__)))
REPO = os.environ.get("VERIF_REPO", "/repo")
BUILD = os.path.join(VERIF, "build")
EVIDENCE = os.path.join(VERIF, "evidence")
REPLAYS = os.path.join(VERIF, "replays")
KNOWN = os.path.join(VERIF, "known_findings.txt")

EXIT_OK, EXIT_VIOLATION, EXIT_INFRA = 0, 1, 2


def tier():
    t = os.environ.get("VERIF_TIER", "quick")
    return t if t in ("quick", "thorough") else "quick"


def seed():
    try:
        return int(os.environ.get("VERIF_SEED", "0"))
    except ValueError:
        return 0


def ncpu():
    try:
        return max(1, len(os.sched_getaffinity(0)))
    except Exception:
        return os.cpu_count() or 4


def log(*a):
    print(*a, flush=True)


def env_offline(extra=None):
    e = dict(os.environ)
    e.update({"CARGO_NET_OFFLINE": "true", "GOPROXY": "off", "PIP_NO_INDEX": "1",
              "CARGO_TERM_COLOR": "never"})
    if extra:
        e.update(extra)
    return e


def run(cmd, cwd=None, timeout=None, mem_gb=None, env=None, stdin=None):
    """Run a command; returns (rc, output, wall_s, timed_out). rc is None on timeout."""
    def pre():
        os.setsid()
        if mem_gb:
            lim = int(mem_gb * (1 << 30))
            resource.setrlimit(resource.RLIMIT_AS, (lim, lim))
    t0 = time.time()
    p = subprocess.Popen(cmd, cwd=cwd, env=env or env_offline(), stdout=subprocess.PIPE,
                         stderr=subprocess.STDOUT, stdin=subprocess.PIPE if stdin is not None else subprocess.DEVNULL,
                         text=True, preexec_fn=pre, errors="replace")
    try:
        out, _ = p.communicate(stdin, timeout=timeout)
        return p.returncode, out, time.time() - t0, False
    except subprocess.TimeoutExpired:
        try:
            os.killpg(p.pid, signal.SIGKILL)
        except ProcessLookupError:
            pass
        out, _ = p.communicate()
        return None, out or "", time.time() - t0, True


def known_findings(prop):
    """Entries of known_findings.txt for a property: list of (kind, key, text).
    Lines:  known: property=<id> key=<key> <what fails>
            fixed: property=<id> <commit> <what failed>"""
    res = []
    if not os.path.exists(KNOWN):
        return res
    for line in open(KNOWN):
        line = line.strip()
        if not line or line.startswith("#"):
            continue
        kind, _, rest = line.partition(":")
        rest = rest.strip()
        toks = rest.split()
        if not toks or not toks[0].startswith("property="):
            continue
        if toks[0].split("=", 1)[1] != prop:
            continue
        key = None
        if len(toks) > 1 and toks[1].startswith("key="):
            key = toks[1].split("=", 1)[1]
            text = " ".join(toks[2:])
        else:
            text = " ".join(toks[1:])
        res.append((kind.strip(), key, text))
    return res


def write_evidence(prop, level, coverage, assumptions, wall_s, violations, extra=None):
    os.makedirs(EVIDENCE, exist_ok=True)
    ev = {
        "property_id": prop,
        "tier": tier(),
        "seed": seed(),
        "level": level,
        "coverage": coverage,
        "assumptions": assumptions,
        "wall_s": round(wall_s, 3),
        "violations": violations,
    }
    if extra:
        ev.update(extra)
    tmp = os.path.join(EVIDENCE, prop + ".json.tmp")
    with open(tmp, "w") as f:
        json.dump(ev, f, indent=1, sort_keys=False)
        f.write("\n")
    os.replace(tmp, os.path.join(EVIDENCE, prop + ".json"))


def repo_fingerprint(paths):
    """sha256 over the current contents of the given /repo-relative files (recorded in evidence)."""
    h = hashlib.sha256()
    for p in paths:
        fp = os.path.join(REPO, p)
        h.update(p.encode())
        try:
            with open(fp, "rb") as f:
                h.update(f.read())
        except OSError:
            h.update(b"<missing>")
    return h.hexdigest()[:16]


def finish(prop, violations, known_lines, infra_errors):
    """Print the protocol lines and exit. violations: list of (what, replay_path)."""
    for k in known_lines:
        log("KNOWN-FINDING: property=%s %s" % (prop, k))
    if infra_errors:
        for e in infra_errors:
            log("INCONCLUSIVE property=%s %s" % (prop, e))
    if violations:
        for what, path in violations:
            log("violation detail: %s" % what)
            log("VIOLATION property=%s replay=%s" % (prop, path))
        sys.exit(EXIT_VIOLATION)
    if infra_errors:
        sys.exit(EXIT_INFRA)
    log("OK property=%s held on everything explored (tier=%s)" % (prop, tier()))
    sys.exit(EXIT_OK)
