"""Symbolic execution of string-building code and of the ECMAScript single-quoted string literal lexer over sequences whose
elements are either concrete code units (python ints) or symbolic 16-bit z3 terms. Control flow that depends on a symbolic
element forks the path; every fork is pruned by a solver feasibility query, so the surviving paths are exactly the feasible
ones and the verdict per path (well-formed / not, value equal / different) is the solver's."""
import z3

BS, SQ, DQ, LF, CR, LS, PS = 0x5C, 0x27, 0x22, 0x0A, 0x0D, 0x2028, 0x2029
W = 16


def is_sym(t):
    return not isinstance(t, int)


def eqc(t, v):
    """t == v as True / False / z3 Bool"""
    if isinstance(t, int):
        return t == v
    return t == z3.BitVecVal(v, W)


def in_ranges(t, ranges):
    if isinstance(t, int):
        return any(a <= t <= b for a, b in ranges)
    return z3.Or(*[(t == a) if a == b else z3.And(z3.UGE(t, a), z3.ULE(t, b)) for a, b in ranges])


def term(t):
    return z3.BitVecVal(t, W) if isinstance(t, int) else t


class Ctx:
    """feasibility oracle: base constraints (character classes) + the path condition"""

    def __init__(self, base, timeout_ms=60000):
        self.s = z3.Solver()
        self.s.set("timeout", timeout_ms)
        self.s.add(*base)
        self.n_queries = 0
        self.time_s = 0.0
        self.unknown = 0

    def check(self, cons):
        import time
        t0 = time.time()
        self.s.push()
        self.s.add(*[c for c in cons if c is not True])
        r = str(self.s.check())
        m = self.s.model() if r == "sat" else None
        self.s.pop()
        self.n_queries += 1
        self.time_s += time.time() - t0
        if r == "unknown":
            self.unknown += 1
        return r, m

    def feasible(self, cons):
        if any(c is False for c in cons):
            return False
        r, _ = self.check(cons)
        return r != "unsat"     # unknown is kept as feasible (sound for "no violation" verdicts; a reported path is re-checked with a model)


def fork(ctx, cons, alternatives):
    """alternatives: list of (label, condition) that are exhaustive and mutually exclusive; yields (label, cons') for the feasible ones"""
    for label, cond in alternatives:
        if cond is False:
            continue
        if cond is True:
            yield label, cons
            return
        c2 = cons + [cond]
        if ctx.feasible(c2):
            yield label, c2


def sym_replace(ctx, paths, pat, rep):
    """Rust str::replace(pat, rep) (leftmost, non-overlapping) applied to every (cons, terms) path; pat/rep are lists of ints"""
    n = len(pat)
    if n == 0:
        raise ValueError("empty pattern")
    out = []
    for cons0, terms in paths:
        L = len(terms)
        stack = [(0, cons0, [])]
        while stack:
            i, cons, acc = stack.pop()
            while i < L:
                if i + n > L:
                    acc = acc + [terms[i]]; i += 1
                    continue
                conds = [eqc(terms[i + k], pat[k]) for k in range(n)]
                if any(c is False for c in conds):
                    acc = acc + [terms[i]]; i += 1
                    continue
                symc = [c for c in conds if c is not True]
                if not symc:
                    acc = acc + list(rep); i += n
                    continue
                hit = z3.And(*symc) if len(symc) > 1 else symc[0]
                alts = list(fork(ctx, cons, [("hit", hit), ("miss", z3.Not(hit))]))
                if not alts:
                    break
                for label, c2 in alts[1:]:
                    stack.append((i + n, c2, acc + list(rep)) if label == "hit" else (i + 1, c2, acc + [terms[i]]))
                label, cons = alts[0]
                if label == "hit":
                    acc = acc + list(rep); i += n
                else:
                    acc = acc + [terms[i]]; i += 1
            else:
                out.append((cons, acc))
    return out


HEX = [(0x30, 0x39), (0x41, 0x46), (0x61, 0x66)]
SIMPLE_ESC = {ord("n"): 10, ord("t"): 9, ord("b"): 8, ord("f"): 12, ord("r"): 13, ord("v"): 11}


def hexval(t):
    if isinstance(t, int):
        return int(chr(t), 16)
    return z3.If(z3.ULE(t, 0x39), t - 0x30, z3.If(z3.ULE(t, 0x46), t - 0x41 + 10, t - 0x61 + 10))


def sym_js_single_quoted(ctx, cons0, body):
    """Lex `body` as the characters between the quotes of a single-quoted string literal in strict-mode code (a module).
    Yields (cons, status, value) for every feasible path; status is 'ok' or the reason the literal is malformed / ends early.
    The body is followed by the closing quote: a trailing unpaired backslash escapes it ('escaped-closing-quote')."""
    L = len(body)
    work = [(0, cons0, [])]
    while work:
        i, cons, val = work.pop()
        if i >= L:
            yield cons, "ok", val
            continue
        c = body[i]
        cats = [("bs", eqc(c, BS)), ("sq", eqc(c, SQ)), ("nl", in_ranges(c, [(LF, LF), (CR, CR)])),
                ("other", (c not in (BS, SQ, LF, CR)) if isinstance(c, int) else z3.And(c != BS, c != SQ, c != LF, c != CR))]
        for label, c2 in fork(ctx, cons, cats):
            for i2, c3, v2, status in _step(ctx, body, i, c2, val, label):
                if status is None:
                    work.append((i2, c3, v2))
                else:
                    yield c3, status, v2


def _step(ctx, body, i, cons, val, label):
    """one lexer step at position i whose category `label` has been decided; returns a list of (i', cons', val', status)"""
    L = len(body)
    if label == "other":
        return [(i + 1, cons, val + [body[i]], None)]
    if label == "sq":
        return [(i, cons, val, "early-quote")]
    if label == "nl":
        return [(i, cons, val, "raw-line-terminator")]
    # backslash
    if i + 1 >= L:
        return [(i, cons, val, "escaped-closing-quote")]
    d = body[i + 1]
    digit19 = [(0x31, 0x39)]
    cats = [("cont-lf", eqc(d, LF)), ("cont-cr", eqc(d, CR)), ("cont-ls", in_ranges(d, [(LS, PS)])),
            ("x", eqc(d, ord("x"))), ("u", eqc(d, ord("u"))), ("zero", eqc(d, 0x30)), ("digit", in_ranges(d, digit19))]
    for ch, v in SIMPLE_ESC.items():
        cats.append(("simple%d" % v, eqc(d, ch)))
    special = [LF, CR, LS, PS, ord("x"), ord("u")] + list(range(0x30, 0x3A)) + list(SIMPLE_ESC)
    if isinstance(d, int):
        cats.append(("self", d not in special))
    else:
        cats.append(("self", z3.And(*[d != v for v in special])))
    alts = list(fork(ctx, cons, cats))
    results = []
    for lab, c2 in alts:
        if lab == "cont-lf" or lab == "cont-ls":
            results.append((i + 2, c2, val, None))
        elif lab == "cont-cr":
            if i + 2 < L:
                for l3, c3 in fork(ctx, c2, [("crlf", eqc(body[i + 2], LF)), ("cr", (body[i + 2] != LF) if isinstance(body[i + 2], int) else body[i + 2] != LF)]):
                    results.append((i + 3 if l3 == "crlf" else i + 2, c3, val, None))
            else:
                results.append((i + 2, c2, val, None))
        elif lab.startswith("simple"):
            results.append((i + 2, c2, val + [int(lab[6:])], None))
        elif lab == "self":
            results.append((i + 2, c2, val + [d], None))
        elif lab == "digit":
            results.append((i, c2, val, "octal-or-decimal-escape-in-strict-code"))
        elif lab == "zero":
            if i + 2 < L:
                nd = body[i + 2]
                for l3, c3 in fork(ctx, c2, [("dig", in_ranges(nd, [(0x30, 0x39)])), ("nodig", (not (0x30 <= nd <= 0x39)) if isinstance(nd, int) else z3.Not(in_ranges(nd, [(0x30, 0x39)])))]):
                    results.append((i, c3, val, "octal-or-decimal-escape-in-strict-code") if l3 == "dig" else (i + 2, c3, val + [0], None))
            else:
                results.append((i + 2, c2, val + [0], None))
        elif lab in ("x", "u"):
            k = 2 if lab == "x" else 4
            if i + 2 + k > L:
                results.append((i, c2, val, "malformed-%s-escape" % lab)); continue
            hs = body[i + 2:i + 2 + k]
            allhex = [in_ranges(h, HEX) for h in hs]
            if any(a is False for a in allhex):
                results.append((i, c2, val, "malformed-%s-escape" % lab)); continue
            symc = [a for a in allhex if a is not True]
            good = True if not symc else (z3.And(*symc) if len(symc) > 1 else symc[0])
            for l3, c3 in fork(ctx, c2, [("hex", good), ("nohex", False if good is True else z3.Not(good))]):
                if l3 == "nohex":
                    results.append((i, c3, val, "malformed-%s-escape" % lab)); continue
                if all(isinstance(h, int) for h in hs):
                    v = int("".join(chr(h) for h in hs), 16)
                else:
                    v = z3.BitVecVal(0, W)
                    for h in hs:
                        v = v * 16 + (z3.BitVecVal(hexval(h), W) if isinstance(h, int) else hexval(h))
                results.append((i + 2 + k, c3, val + [v], None))
    return results
